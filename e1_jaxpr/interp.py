"""E1: interpret a jaxpr (the compiler IR JAX produces from the *current* rl_blox
source) over numpy object arrays of concrete rationals / z3 terms.

Nothing here knows about rl_blox.  An unknown primitive raises Unsupported
(harness error), never a silent skip.
"""
from __future__ import annotations

import itertools
import math
from fractions import Fraction

import jax
import jax.numpy as jnp
import numpy as np
import z3
from jax.extend import core as jex_core

from symcore import values as V
from symcore.values import (AbsKeyBase, NonFinite, Unsupported, obj_array, s_abs, s_add, s_and, s_cmp,
                            s_div, s_floor, s_ceil, s_fn, s_idiv, s_ipow, s_ite, s_max, s_min, s_mul,
                            s_neg, s_not, s_or, s_pow, s_rem, s_sign, s_sub, to_bool, to_int, to_real, vec)


# --------------------------------------------------------------------------
# abstract PRNG keys
class AbsKey(AbsKeyBase):
    __slots__ = ("term", "concrete")

    def __init__(self, term, concrete=None):
        self.term = term
        self.concrete = concrete  # real jax key (numeric validation mode) or None

    def __repr__(self):
        return f"Key{self.term}"

    def __eq__(self, o):
        return isinstance(o, AbsKey) and self.term == o.term

    def __hash__(self):
        return hash(self.term)


class RawKeyWord(AbsKeyBase):
    """word i of the raw uint32 data of a key (random_unwrap / PRNGKey arrays)."""
    __slots__ = ("key", "i")

    def __init__(self, key, i):
        self.key, self.i = key, i


class Ctx:
    """Interpretation context: noise variables, assumptions, statistics."""

    def __init__(self, numeric=False, tag=""):
        self.numeric = numeric  # concrete validation mode (floats evaluated)
        self.tag = tag  # prefix for fresh symbols (distinguishes program copies)
        self.noise = {}  # (kind, key term, shape, extra) -> object array
        self.assumptions = []  # z3 constraints on noise vars
        self.n_eqns = 0
        self.prims = set()
        self.fresh = itertools.count()
        self.oob = []  # poison vars created for out-of-bounds gathers

    def noise_arr(self, kind, key, shape, mk, extra=()):
        k = (kind, key.term, tuple(shape), extra)
        if k not in self.noise:
            sfx = "" if not extra else "#" + str(abs(hash(extra)) % 10**6)
            self.noise[k] = mk(f"{kind}[{_kstr(key.term)}]{'x'.join(map(str, shape))}{sfx}")
        return self.noise[k]


def _kstr(t):
    if isinstance(t, tuple):
        return "(" + ",".join(_kstr(x) for x in t) + ")"
    return str(t)


# --------------------------------------------------------------------------
def _is_key_dtype(dt):
    try:
        return jax.dtypes.issubdtype(dt, jax.dtypes.prng_key)
    except Exception:
        return False


def _kind(dt):
    if _is_key_dtype(dt):
        return "key"
    dt = np.dtype(dt)
    if dt == np.bool_:
        return "bool"
    if np.issubdtype(dt, np.integer):
        return "int"
    if np.issubdtype(dt, np.floating):
        return "float"
    raise Unsupported(f"dtype {dt}")


def _wrap(x):
    if isinstance(x, np.ndarray) and x.dtype == object:
        return x
    if isinstance(x, (AbsKeyBase, z3.ExprRef, NonFinite, Fraction)):
        o = np.empty((), dtype=object)
        o[()] = x
        return o
    if isinstance(x, jax.Array) and _is_key_dtype(x.dtype):
        out = np.empty(x.shape, dtype=object)
        for idx in np.ndindex(*x.shape) if x.shape else [()]:
            kk = x[idx]
            out[idx] = AbsKey(("k", tuple(int(w) for w in np.asarray(jax.random.key_data(kk)).reshape(-1))), kk)
        return out
    return obj_array(np.asarray(x))


def _full(shape, v):
    out = np.empty(shape, dtype=object)
    out[...] = None
    for idx in np.ndindex(*shape) if shape else [()]:
        out[idx] = v
    return out


_v2 = lambda f: vec(f, 2)
_v1 = lambda f: vec(f, 1)


def _bin(f):
    g = vec(f, 2)
    return lambda a, b: g(a, b)


def _cast_elem(kind):
    if kind == "float":
        return to_real
    if kind == "int":
        return to_int
    if kind == "bool":
        return to_bool
    raise Unsupported(kind)


# --------------------------------------------------------------------------
class Interp:
    def __init__(self, ctx: Ctx | None = None):
        self.ctx = ctx or Ctx()

    # ---- entry points
    def eval_closed(self, closed, *args):
        return self.eval(closed.jaxpr, closed.consts, *args)

    def eval(self, jaxpr, consts, *args):
        env = {}

        def read(v):
            if isinstance(v, jex_core.Literal):
                try:  # literals carry the value at the precision of their aval (weak-typed python floats are rounded by XLA)
                    return _wrap(np.asarray(v.val, dtype=v.aval.dtype))
                except Exception:
                    return _wrap(np.asarray(v.val))
            return env[v]

        assert len(jaxpr.constvars) == len(consts), (len(jaxpr.constvars), len(consts))
        for v, c in zip(jaxpr.constvars, consts):
            env[v] = _wrap(c)
        assert len(jaxpr.invars) == len(args), (len(jaxpr.invars), len(args))
        for v, a in zip(jaxpr.invars, args):
            a = _wrap(a)
            if tuple(a.shape) != tuple(v.aval.shape):
                raise Unsupported(f"arg shape {a.shape} != {v.aval.shape}")
            env[v] = a
        for eqn in jaxpr.eqns:
            invals = [read(v) for v in eqn.invars]
            self.ctx.n_eqns += 1
            self.ctx.prims.add(eqn.primitive.name)
            outs = self.eqn(eqn, invals)
            if not eqn.primitive.multiple_results:
                outs = [outs]
            assert len(outs) == len(eqn.outvars), eqn.primitive.name
            for v, o in zip(eqn.outvars, outs):
                o = _wrap(o)
                if hasattr(v.aval, "shape") and tuple(o.shape) != tuple(v.aval.shape):
                    raise Unsupported(f"{eqn.primitive.name}: produced shape {o.shape}, expected {v.aval.shape}")
                env[v] = o
        return [read(v) for v in jaxpr.outvars]

    # ---- dispatch
    def eqn(self, eqn, invals):
        name = eqn.primitive.name
        h = getattr(self, "p_" + name.replace("-", "_"), None)
        if h is None:
            raise Unsupported(f"primitive '{name}' not implemented")
        return h(eqn, *invals)

    # ---- helpers
    def _okind(self, eqn, i=0):
        return _kind(eqn.outvars[i].aval.dtype)

    def _structural(self, eqn, operands, extra_pool=()):
        """Run a purely element-moving primitive on integer ids (real JAX
        semantics), then look the elements up."""
        pool = []
        id_args = []
        for a in operands:
            ids = np.arange(len(pool), len(pool) + a.size, dtype=np.int32).reshape(a.shape)
            pool.extend(a.reshape(-1))
            id_args.append(jnp.asarray(ids))
        res = eqn.primitive.bind(*id_args, **eqn.params)
        pool_arr = np.empty(len(pool) + 1, dtype=object)
        for i, p in enumerate(pool):
            pool_arr[i] = p
        def look(r):
            r = np.asarray(r)
            o = np.empty(r.size, dtype=object)
            o[:] = pool_arr[r.reshape(-1)]
            return o.reshape(r.shape)
        if not eqn.primitive.multiple_results:
            return look(res)
        return [look(r) for r in res]

    # ---- structural primitives
    def p_broadcast_in_dim(self, eqn, x, *dyn):
        if dyn:
            raise Unsupported("dynamic broadcast")
        return self._structural(eqn, [x])

    def p_reshape(self, eqn, x, *dyn):
        return x.reshape(eqn.params["new_sizes"])

    def p_squeeze(self, eqn, x):
        return self._structural(eqn, [x])

    def p_expand_dims(self, eqn, x):
        return self._structural(eqn, [x])

    def p_transpose(self, eqn, x):
        return np.transpose(x, eqn.params["permutation"])

    def p_rev(self, eqn, x):
        return self._structural(eqn, [x])

    def p_slice(self, eqn, x):
        return self._structural(eqn, [x])

    def p_concatenate(self, eqn, *xs):
        return np.concatenate(xs, axis=eqn.params["dimension"])

    def p_split(self, eqn, x):
        return self._structural(eqn, [x])

    def p_copy(self, eqn, x):
        return x

    def p_copy_p(self, eqn, x):
        return x

    def p_device_put(self, eqn, *xs):
        return list(xs)  # placement does not change values

    def p_pad(self, eqn, x, padv):
        cfg = eqn.params["padding_config"]
        if any(i != 0 for (_, _, i) in cfg) or any(lo < 0 or hi < 0 for (lo, hi, _) in cfg):
            raise Unsupported("interior/negative padding")
        shape = tuple(lo + s + hi for s, (lo, hi, _) in zip(x.shape, cfg))
        out = _full(shape, padv[()])
        sl = tuple(slice(lo, lo + s) for s, (lo, hi, _) in zip(x.shape, cfg))
        out[sl] = x
        return out

    def p_iota(self, eqn):
        p = eqn.params
        shape, dim = p["shape"], p["dimension"]
        out = np.empty(shape, dtype=object)
        for idx in np.ndindex(*shape):
            out[idx] = idx[dim]
        if self._okind(eqn) == "float":
            out = _v1(to_real)(out)
        return out

    def p_select_n(self, eqn, which, *cases):
        if _kind(eqn.invars[0].aval.dtype) == "bool":
            if len(cases) != 2:
                raise Unsupported("select_n bool with !=2 cases")
            return vec(lambda c, a, b: s_ite(c, b, a), 3)(which, cases[0], cases[1])
        # integer selector
        def sel(w, *cs):
            if V.is_conc(w):
                return cs[int(w)]
            r = cs[-1]
            for i in range(len(cs) - 2, -1, -1):
                r = s_ite(s_cmp("eq", w, i), cs[i], r)
            return r
        return vec(sel, 1 + len(cases))(which, *cases)

    def p_clamp(self, eqn, lo, x, hi):
        return vec(lambda l, v, h: s_min(s_max(v, l), h), 3)(lo, x, hi)

    def p_convert_element_type(self, eqn, x):
        src = _kind(eqn.invars[0].aval.dtype)
        dst = _kind(eqn.params["new_dtype"])
        if src == dst:
            if dst == "float" and np.dtype(eqn.params["new_dtype"]) == np.float32:
                # concrete constants are rounded to the target precision exactly as XLA does; symbolic values are reals
                return _v1(lambda e: Fraction(float(np.float32(float(e)))) if isinstance(e, Fraction) else e)(x)
            return x
        return _v1(_cast_elem(dst))(x)

    def p_stop_gradient(self, eqn, x):
        return x

    def p_optimization_barrier(self, eqn, *xs):
        return list(xs)

    # ---- elementwise arithmetic
    def p_add(self, eqn, a, b):
        return _v2(s_add)(a, b)

    p_add_any = p_add

    def p_sub(self, eqn, a, b):
        return _v2(s_sub)(a, b)

    def p_mul(self, eqn, a, b):
        if self._okind(eqn) == "bool":
            return _v2(s_and)(a, b)
        return _v2(s_mul)(a, b)

    def p_div(self, eqn, a, b):
        if self._okind(eqn) == "int":
            return _v2(s_idiv)(a, b)
        return _v2(s_div)(a, b)

    def p_rem(self, eqn, a, b):
        return _v2(s_rem)(a, b)

    def p_neg(self, eqn, a):
        return _v1(s_neg)(a)

    def p_abs(self, eqn, a):
        return _v1(s_abs)(a)

    def p_sign(self, eqn, a):
        return _v1(s_sign)(a)

    def p_floor(self, eqn, a):
        return _v1(s_floor)(a)

    def p_ceil(self, eqn, a):
        return _v1(s_ceil)(a)

    def p_max(self, eqn, a, b):
        return _v2(s_max)(a, b)

    def p_min(self, eqn, a, b):
        return _v2(s_min)(a, b)

    def p_square(self, eqn, a):
        return _v1(lambda x: s_mul(x, x))(a)

    def p_integer_pow(self, eqn, a):
        y = eqn.params["y"]
        return _v1(lambda x: s_ipow(x, y))(a)

    def p_pow(self, eqn, a, b):
        return _v2(s_pow)(a, b)

    def p_is_finite(self, eqn, a):
        return _v1(lambda x: not isinstance(x, NonFinite))(a)

    def _unary_fn(name):
        def h(self, eqn, a):
            if self.ctx.numeric:
                return _v1(lambda x: _num_fn(name, x) if V.is_conc(x) else s_fn(name, x))(a)
            return _v1(lambda x: s_fn(name, x))(a)
        return h

    p_exp = _unary_fn("exp")
    p_log = _unary_fn("log")
    p_log1p = _unary_fn("log1p")
    p_expm1 = _unary_fn("expm1")
    p_tanh = _unary_fn("tanh")
    p_logistic = _unary_fn("logistic")
    p_sqrt = _unary_fn("sqrt")
    p_rsqrt = _unary_fn("rsqrt")
    p_sin = _unary_fn("sin")
    p_cos = _unary_fn("cos")
    p_acos = _unary_fn("acos")
    p_atan = _unary_fn("atan")
    p_erf = _unary_fn("erf")
    p_erf_inv = _unary_fn("erf_inv")
    p_lgamma = _unary_fn("lgamma")
    del _unary_fn

    def p_atan2(self, eqn, a, b):
        if self.ctx.numeric:
            return _v2(lambda x, y: Fraction(math.atan2(float(x), float(y))))(a, b)
        return _v2(lambda x, y: V.uf("atan2", 2)(V.to_z3(to_real(x)), V.to_z3(to_real(y))))(a, b)

    def p_nextafter(self, eqn, a, b):
        # only used to open/close interval ends by one ulp; identity in the real model
        return a

    # ---- comparisons / logic
    def _cmp(op):
        def h(self, eqn, a, b):
            return _v2(lambda x, y: s_cmp(op, x, y))(a, b)
        return h

    p_lt = _cmp("lt")
    p_le = _cmp("le")
    p_gt = _cmp("gt")
    p_ge = _cmp("ge")
    p_eq = _cmp("eq")
    p_ne = _cmp("ne")
    del _cmp

    def p_and(self, eqn, a, b):
        if self._okind(eqn) != "bool":
            raise Unsupported("bitwise and on ints")
        return _v2(s_and)(a, b)

    def p_or(self, eqn, a, b):
        if self._okind(eqn) != "bool":
            raise Unsupported("bitwise or on ints")
        return _v2(s_or)(a, b)

    def p_not(self, eqn, a):
        if self._okind(eqn) != "bool":
            raise Unsupported("bitwise not on ints")
        return _v1(s_not)(a)

    def p_xor(self, eqn, a, b):
        if self._okind(eqn) != "bool":
            raise Unsupported("bitwise xor on ints")
        return _v2(lambda x, y: s_cmp("ne", x, y))(a, b)

    # ---- reductions
    def _reduce(self, x, axes, f, init):
        axes = tuple(sorted(axes))
        keep = [d for d in range(x.ndim) if d not in axes]
        xt = np.transpose(x, keep + list(axes))
        oshape = tuple(x.shape[d] for d in keep)
        red = xt.reshape(oshape + (-1,))
        out = np.empty(oshape, dtype=object)
        for idx in np.ndindex(*oshape) if oshape else [()]:
            acc = init
            for v in red[idx]:
                acc = v if acc is None else f(acc, v)
            out[idx] = acc
        return out

    def p_reduce_sum(self, eqn, x):
        z = Fraction(0) if self._okind(eqn) == "float" else 0
        return self._reduce(x, eqn.params["axes"], s_add, z)

    def p_reduce_prod(self, eqn, x):
        o = Fraction(1) if self._okind(eqn) == "float" else 1
        return self._reduce(x, eqn.params["axes"], s_mul, o)

    def p_reduce_max(self, eqn, x):
        return self._reduce(x, eqn.params["axes"], s_max, None)

    def p_reduce_min(self, eqn, x):
        return self._reduce(x, eqn.params["axes"], s_min, None)

    def p_reduce_and(self, eqn, x):
        return self._reduce(x, eqn.params["axes"], s_and, True)

    def p_reduce_or(self, eqn, x):
        return self._reduce(x, eqn.params["axes"], s_or, False)

    def _argext(self, eqn, x, better):
        (axis,) = eqn.params["axes"]
        xt = np.moveaxis(x, axis, -1)
        oshape = xt.shape[:-1]
        out = np.empty(oshape, dtype=object)
        for idx in np.ndindex(*oshape) if oshape else [()]:
            row = xt[idx]
            bv, bi = row[0], 0
            for j in range(1, len(row)):
                c = s_cmp(better, row[j], bv)  # strict: first extremum wins
                bv = s_ite(c, row[j], bv)
                bi = s_ite(c, j, bi)
            out[idx] = bi
        return out

    def p_argmax(self, eqn, x):
        return self._argext(eqn, x, "gt")

    def p_argmin(self, eqn, x):
        return self._argext(eqn, x, "lt")

    def _cum(self, eqn, x, f):
        axis, reverse = eqn.params["axis"], eqn.params.get("reverse", False)
        xt = np.moveaxis(x, axis, -1).copy()
        for idx in np.ndindex(*xt.shape[:-1]) if xt.ndim > 1 else [()]:
            row = xt[idx]
            rng = range(len(row) - 1, -1, -1) if reverse else range(len(row))
            acc = None
            for j in rng:
                acc = row[j] if acc is None else f(acc, row[j])
                row[j] = acc
        return np.moveaxis(xt, -1, axis)

    def p_cumsum(self, eqn, x):
        return self._cum(eqn, x, s_add)

    def p_cumprod(self, eqn, x):
        return self._cum(eqn, x, s_mul)

    def p_cummax(self, eqn, x):
        return self._cum(eqn, x, s_max)

    def p_cummin(self, eqn, x):
        return self._cum(eqn, x, s_min)

    # ---- sort / top_k (rank encoding, stable)
    def _sorted_perm(self, keys):
        """keys: list of key rows (lexicographic).  Returns list P where P[k] is a list of
        (cond, i) such that element i has rank k under cond (conds exclusive, exhaustive)."""
        n = len(keys[0])

        def less(i, j):  # strict lexicographic
            r = False
            for kr in reversed(keys):
                r = s_or(s_cmp("lt", kr[i], kr[j]), s_and(s_cmp("eq", kr[i], kr[j]), r))
            return r

        ranks = []
        for i in range(n):
            r = 0
            for j in range(n):
                if j == i:
                    continue
                before = less(j, i) if j > i else s_not(less(i, j))  # stable: ties keep order
                r = s_add(r, s_ite(before, 1, 0))
            ranks.append(r)
        return ranks

    def _place(self, ranks, row):
        n = len(row)
        out = []
        for k in range(n):
            v = row[n - 1]
            for i in range(n - 2, -1, -1):
                v = s_ite(s_cmp("eq", ranks[i], k), row[i], v)
            out.append(v)
        return out

    def p_sort(self, eqn, *ops):
        dim, nk = eqn.params["dimension"], eqn.params["num_keys"]
        moved = [np.moveaxis(o, dim, -1) for o in ops]
        outs = [m.copy() for m in moved]
        for idx in np.ndindex(*moved[0].shape[:-1]) if moved[0].ndim > 1 else [()]:
            keys = [list(m[idx]) for m in moved[:nk]]
            if all(isinstance(k, RawKeyWord) or V.is_conc(k) for kr in keys for k in kr) and any(isinstance(k, AbsKeyBase) for kr in keys for k in kr):
                raise Unsupported("sort on raw PRNG bits (abstract _shuffle instead)")
            ranks = self._sorted_perm(keys)
            for o, m in zip(outs, moved):
                o[idx] = self._place(ranks, list(m[idx]))
        return [np.moveaxis(o, -1, dim) for o in outs]

    def p_top_k(self, eqn, x):
        k = eqn.params["k"]
        oshape = x.shape[:-1] + (k,)
        vals, idxs = np.empty(oshape, dtype=object), np.empty(oshape, dtype=object)
        for idx in np.ndindex(*x.shape[:-1]) if x.ndim > 1 else [()]:
            row = list(x[idx])
            ranks = self._sorted_perm([[s_neg(v) for v in row]])
            sv = self._place(ranks, row)
            si = self._place(ranks, list(range(len(row))))
            for j in range(k):
                vals[idx + (j,)] = sv[j]
                idxs[idx + (j,)] = si[j]
        return [vals, idxs]

    # ---- dot_general
    def p_dot_general(self, eqn, a, b):
        (ca, cb), (ba, bb) = eqn.params["dimension_numbers"]
        fa = [d for d in range(a.ndim) if d not in ca and d not in ba]
        fb = [d for d in range(b.ndim) if d not in cb and d not in bb]
        at = np.transpose(a, list(ba) + fa + list(ca))
        bt = np.transpose(b, list(bb) + fb + list(cb))
        bshape = tuple(a.shape[d] for d in ba)
        fas, fbs = tuple(a.shape[d] for d in fa), tuple(b.shape[d] for d in fb)
        K = int(np.prod([a.shape[d] for d in ca], dtype=int))
        at = at.reshape(bshape + (int(np.prod(fas, dtype=int)), K))
        bt = bt.reshape(bshape + (int(np.prod(fbs, dtype=int)), K))
        out = np.empty(bshape + (at.shape[-2], bt.shape[-2]), dtype=object)
        zero = Fraction(0) if self._okind(eqn) == "float" else 0
        for bidx in np.ndindex(*bshape) if bshape else [()]:
            A, B = at[bidx], bt[bidx]
            for i in range(A.shape[0]):
                for j in range(B.shape[0]):
                    acc = zero
                    for k in range(K):
                        acc = s_add(acc, s_mul(A[i, k], B[j, k]))
                    out[bidx + (i, j)] = acc
        return out.reshape(bshape + fas + fbs)

    # ---- indexing
    def _ite_index(self, arr_get, starts, lo_hi, oob_value=None):
        """arr_get(concrete index tuple) -> element; starts: list of elements (maybe symbolic ints),
        lo_hi: list of (lo, hi) inclusive ranges each start may take after clamping."""
        def rec(d, prefix):
            if d == len(starts):
                return arr_get(tuple(prefix))
            s = starts[d]
            lo, hi = lo_hi[d]
            if V.is_conc(s):
                return rec(d + 1, prefix + [min(max(int(s), lo), hi)])
            # clamp semantics: <=lo -> lo, >=hi -> hi
            r = rec(d + 1, prefix + [hi])
            for v in range(hi - 1, lo - 1, -1):
                c = s_cmp("le", s, v) if v == lo else s_cmp("eq", s, v)
                r = s_ite(c, rec(d + 1, prefix + [v]), r)
            return r
        return rec(0, [])

    def p_dynamic_slice(self, eqn, x, *starts):
        sizes = eqn.params["slice_sizes"]
        starts = [s[()] for s in starts]
        lo_hi = [(0, x.shape[d] - sizes[d]) for d in range(x.ndim)]
        out = np.empty(sizes, dtype=object)
        for off in np.ndindex(*sizes):
            out[off] = self._ite_index(lambda st: x[tuple(s + o for s, o in zip(st, off))], starts, lo_hi)
        return out

    def p_dynamic_update_slice(self, eqn, x, upd, *starts):
        starts = [s[()] for s in starts]
        lo_hi = [(0, x.shape[d] - upd.shape[d]) for d in range(x.ndim)]
        if all(V.is_conc(s) for s in starts):
            st = [min(max(int(s), lo), hi) for s, (lo, hi) in zip(starts, lo_hi)]
            out = x.copy()
            out[tuple(slice(s, s + n) for s, n in zip(st, upd.shape))] = upd
            return out
        out = np.empty(x.shape, dtype=object)
        # enumerate feasible start tuples; out[p] = ite(start == st and p in window, upd[p-st], x[p])
        ranges = [range(lo, hi + 1) if V.is_sym(s) else [min(max(int(s), lo), hi)] for s, (lo, hi) in zip(starts, lo_hi)]
        for p in np.ndindex(*x.shape):
            val = x[p]
            for st in itertools.product(*ranges):
                if all(s <= q < s + n for s, q, n in zip(st, p, upd.shape)):
                    cond = True
                    for s_sym, s_c, (lo, hi) in zip(starts, st, lo_hi):
                        if V.is_sym(s_sym):
                            c = s_cmp("le", s_sym, s_c) if s_c == lo else (s_cmp("ge", s_sym, s_c) if s_c == hi else s_cmp("eq", s_sym, s_c))
                            cond = s_and(cond, c)
                    val = s_ite(cond, upd[tuple(q - s for q, s in zip(p, st))], val)
            out[p] = val
        return out

    def _gs_mode(self, mode):
        m = str(mode)
        if "CLIP" in m:
            return "clip"
        if "FILL" in m:
            return "fill"
        if "PROMISE" in m:
            return "promise"
        if "ONE_HOT" in m:
            return "fill"
        raise Unsupported(f"gather/scatter mode {m}")

    def p_gather(self, eqn, operand, indices):
        p = eqn.params
        dn = p["dimension_numbers"]
        sizes = p["slice_sizes"]
        mode = self._gs_mode(p["mode"])
        fill = p.get("fill_value", None)
        offset_dims = tuple(dn.offset_dims)
        collapsed = tuple(dn.collapsed_slice_dims)
        sim = tuple(dn.start_index_map)
        obd = tuple(getattr(dn, "operand_batching_dims", ()))
        sibd = tuple(getattr(dn, "start_indices_batching_dims", ()))
        batch_shape = indices.shape[:-1]
        off_op_dims = [d for d in range(operand.ndim) if d not in collapsed and d not in obd]
        out_rank = len(batch_shape) + len(offset_dims)
        batch_out_dims = [d for d in range(out_rank) if d not in offset_dims]
        oshape = [None] * out_rank
        for k, d in enumerate(offset_dims):
            oshape[d] = sizes[off_op_dims[k]]
        for k, d in enumerate(batch_out_dims):
            oshape[d] = batch_shape[k]
        out = np.empty(tuple(oshape), dtype=object)
        okind = self._okind(eqn)
        for oidx in np.ndindex(*oshape) if oshape else [()]:
            bidx = tuple(oidx[d] for d in batch_out_dims)
            start = [0] * operand.ndim
            symb = [False] * operand.ndim
            for k, d in enumerate(sim):
                start[d] = indices[bidx + (k,)]
            for k, d in enumerate(obd):
                start[d] = bidx[sibd[k]]
            offs = [0] * operand.ndim
            for k, d in enumerate(offset_dims):
                offs[off_op_dims[k]] = oidx[d]
            lo_hi = [(0, operand.shape[d] - sizes[d]) for d in range(operand.ndim)]
            if mode in ("clip", "promise"):
                out[oidx] = self._ite_index(lambda st: operand[tuple(s + o for s, o in zip(st, offs))], start, lo_hi)
            else:
                # fill: out of bounds -> fill value (NaN for floats: poison symbol)
                inb = True
                for d in range(operand.ndim):
                    s = start[d]
                    if V.is_conc(s):
                        if not (lo_hi[d][0] <= int(s) <= lo_hi[d][1]):
                            inb = False
                    else:
                        inb = s_and(inb, s_and(s_cmp("ge", s, lo_hi[d][0]), s_cmp("le", s, lo_hi[d][1])))
                val = None
                if inb is not False:
                    val = self._ite_index(lambda st: operand[tuple(s + o for s, o in zip(st, offs))], start, lo_hi)
                if inb is True:
                    out[oidx] = val
                else:
                    pv = self._poison(okind, fill)
                    out[oidx] = pv if inb is False else s_ite(inb, val, pv)
        return out

    def _poison(self, kind, fill=None):
        if fill is not None and not (isinstance(fill, float) and math.isnan(fill)):
            return V.norm_conc(fill)
        n = next(self.ctx.fresh)
        if kind == "float":
            v = z3.Real(f"{self.ctx.tag}oob!{n}")
        elif kind == "int":
            v = z3.Int(f"{self.ctx.tag}oob!{n}")
        else:
            v = z3.Bool(f"{self.ctx.tag}oob!{n}")
        self.ctx.oob.append(v)
        return v

    def _scatter(self, eqn, operand, indices, updates, combine):
        p = eqn.params
        dn = p["dimension_numbers"]
        mode = self._gs_mode(p["mode"])
        uwd = tuple(dn.update_window_dims)
        iwd = tuple(dn.inserted_window_dims)
        sdod = tuple(dn.scatter_dims_to_operand_dims)
        obd = tuple(getattr(dn, "operand_batching_dims", ()))
        sibd = tuple(getattr(dn, "scatter_indices_batching_dims", ()))
        batch_shape = indices.shape[:-1]
        win_op_dims = [d for d in range(operand.ndim) if d not in iwd and d not in obd]
        scatter_upd_dims = [d for d in range(updates.ndim) if d not in uwd]
        out = operand.copy()
        win_sizes = [1] * operand.ndim
        for k, d in enumerate(uwd):
            win_sizes[win_op_dims[k]] = updates.shape[d]
        for uidx in np.ndindex(*updates.shape) if updates.shape else [()]:
            bidx = tuple(uidx[d] for d in scatter_upd_dims)
            start = [0] * operand.ndim
            for k, d in enumerate(sdod):
                start[d] = indices[bidx + (k,)]
            for k, d in enumerate(obd):
                start[d] = bidx[sibd[k]]
            offs = [0] * operand.ndim
            for k, d in enumerate(uwd):
                offs[win_op_dims[k]] = uidx[d]
            u = updates[uidx]
            # candidates: every operand position reachable
            ranges = []
            for d in range(operand.ndim):
                s = start[d]
                hi = operand.shape[d] - win_sizes[d]
                if V.is_conc(s):
                    s = int(s)
                    if mode == "clip":
                        s = min(max(s, 0), hi)
                    ranges.append([(s, True)])
                else:
                    cand = []
                    for v in range(0, hi + 1):
                        if mode == "clip":
                            c = s_cmp("le", s, v) if v == 0 else (s_cmp("ge", s, v) if v == hi else s_cmp("eq", s, v))
                        else:
                            c = s_cmp("eq", s, v)
                        cand.append((v, c))
                    ranges.append(cand)
            for combo in itertools.product(*ranges):
                pos = tuple(v + o for (v, _), o in zip(combo, offs))
                # whole window must be in bounds for fill/drop; start in [0,hi] guarantees it
                if any(not (0 <= (v) <= operand.shape[d] - win_sizes[d]) for d, (v, _) in enumerate(combo)):
                    continue
                cond = True
                for _, c in combo:
                    cond = s_and(cond, c)
                out[pos] = s_ite(cond, combine(out[pos], u), out[pos])
        return out

    def p_scatter(self, eqn, operand, indices, updates):
        return self._scatter(eqn, operand, indices, updates, lambda old, u: u)

    def p_scatter_add(self, eqn, operand, indices, updates):
        return self._scatter(eqn, operand, indices, updates, s_add)

    def p_scatter_mul(self, eqn, operand, indices, updates):
        return self._scatter(eqn, operand, indices, updates, s_mul)

    def p_scatter_min(self, eqn, operand, indices, updates):
        return self._scatter(eqn, operand, indices, updates, s_min)

    def p_scatter_max(self, eqn, operand, indices, updates):
        return self._scatter(eqn, operand, indices, updates, s_max)

    # ---- calls and control flow
    def p_pjit(self, eqn, *args):
        name = eqn.params.get("name", "")
        h = _PRNG_NAMED.get(name)
        if h is not None:
            r = h(self, eqn, *args)
            return r if isinstance(r, list) else [r]
        return self.eval_closed(eqn.params["jaxpr"], *args)

    p_jit = p_pjit

    def p_closed_call(self, eqn, *args):
        return self.eval_closed(eqn.params["call_jaxpr"], *args)

    def p_core_call(self, eqn, *args):
        return self.eval(eqn.params["call_jaxpr"], [], *args)

    def p_remat(self, eqn, *args):
        return self.eval(eqn.params["jaxpr"], [], *args)

    p_checkpoint = p_remat

    def p_custom_jvp_call(self, eqn, *args):
        return self.eval_closed(eqn.params["call_jaxpr"], *args)

    def p_custom_vjp_call(self, eqn, *args):
        j = eqn.params.get("call_jaxpr") or eqn.params.get("fun_jaxpr")
        return self.eval_closed(j, *args)

    p_custom_vjp_call_jaxpr = p_custom_vjp_call

    def p_scan(self, eqn, *args):
        p = eqn.params
        nc, ncar, length, rev = p["num_consts"], p["num_carry"], p["length"], p["reverse"]
        consts, carry, xs = list(args[:nc]), list(args[nc:nc + ncar]), list(args[nc + ncar:])
        body = p["jaxpr"]
        n_out = len(body.jaxpr.outvars) - ncar
        ys = [[None] * length for _ in range(n_out)]
        order = range(length - 1, -1, -1) if rev else range(length)
        for t in order:
            xt = [x[t] if x.ndim > 1 else _wrap_elem(x[t]) for x in xs]
            outs = self.eval_closed(body, *consts, *carry, *xt)
            carry = outs[:ncar]
            for k, y in enumerate(outs[ncar:]):
                ys[k][t] = y
        stacked = []
        for k in range(n_out):
            av = eqn.outvars[ncar + k].aval
            if length == 0:
                stacked.append(np.empty(av.shape, dtype=object))
            else:
                stacked.append(np.stack(ys[k], axis=0))
        return carry + stacked

    def p_while(self, eqn, *args):
        p = eqn.params
        cn, bn = p["cond_nconsts"], p["body_nconsts"]
        cc, bc, carry = list(args[:cn]), list(args[cn:cn + bn]), list(args[cn + bn:])
        for _ in range(10000):
            c = self.eval_closed(p["cond_jaxpr"], *cc, *carry)[0][()]
            if V.is_sym(c):
                raise Unsupported("while with symbolic trip count")
            if not c:
                return carry
            carry = self.eval_closed(p["body_jaxpr"], *bc, *carry)
        raise Unsupported("while did not terminate in 10000 iterations")

    def p_cond(self, eqn, idx, *args):
        branches = eqn.params["branches"]
        i = idx[()]
        if V.is_conc(i):
            i = min(max(int(i), 0), len(branches) - 1)
            return self.eval_closed(branches[i], *args)
        outs = [self.eval_closed(b, *args) for b in branches]
        res = []
        isb = _kind(eqn.invars[0].aval.dtype) == "bool"
        for k in range(len(outs[0])):
            acc = outs[-1][k]
            for bi in range(len(branches) - 2, -1, -1):
                c = (s_not(to_bool(i)) if bi == 0 else to_bool(i)) if isb else (s_cmp("le", i, 0) if bi == 0 else s_cmp("eq", i, bi))
                acc = vec(lambda a, b, c=c: s_ite(c, a, b), 2)(outs[bi][k], acc)
            res.append(acc)
        return res

    # ---- PRNG primitives on abstract keys
    def p_random_seed(self, eqn, seed):
        s = seed[()]
        conc = jax.random.key(int(s)) if (self.ctx.numeric and V.is_conc(s)) else None
        return _wrap_elem(AbsKey(("seed", str(s)), conc))

    def p_random_wrap(self, eqn, raw):
        out = np.empty(raw.shape[:-1], dtype=object)
        for idx in np.ndindex(*out.shape) if out.shape else [()]:
            w = raw[idx + (0,)]
            if isinstance(w, RawKeyWord):
                out[idx] = w.key
            else:
                words = tuple(raw[idx + (j,)] for j in range(raw.shape[-1]))
                if not all(V.is_conc(x) for x in words):
                    raise Unsupported("random_wrap of symbolic words")
                conc = jax.random.wrap_key_data(jnp.asarray([int(x) for x in words], dtype=jnp.uint32)) if self.ctx.numeric else None
                out[idx] = AbsKey(("k", tuple(int(x) for x in words)), conc)
        return out

    def p_random_unwrap(self, eqn, keys):
        n = eqn.outvars[0].aval.shape[-1]
        out = np.empty(keys.shape + (n,), dtype=object)
        for idx in np.ndindex(*keys.shape) if keys.shape else [()]:
            for j in range(n):
                out[idx + (j,)] = RawKeyWord(keys[idx], j)
        return out

    def p_random_split(self, eqn, keys):
        shape = tuple(eqn.params["shape"])
        out = np.empty(keys.shape + shape, dtype=object)
        for idx in np.ndindex(*keys.shape) if keys.shape else [()]:
            k = keys[idx]
            conc = jax.random.split(k.concrete, shape) if k.concrete is not None else None
            for j in np.ndindex(*shape):
                out[idx + j] = AbsKey(("split", k.term, shape, j), conc[j] if conc is not None else None)
        return out

    def p_random_fold_in(self, eqn, keys, data):
        out = np.empty(eqn.outvars[0].aval.shape, dtype=object)
        kb = np.broadcast_to(keys, out.shape)
        db = np.broadcast_to(data, out.shape)
        for idx in np.ndindex(*out.shape) if out.shape else [()]:
            k, d = kb[idx], db[idx]
            conc = jax.random.fold_in(k.concrete, int(d)) if (k.concrete is not None and V.is_conc(d)) else None
            out[idx] = AbsKey(("fold", k.term, str(d)), conc)
        return out

    def p_random_clone(self, eqn, keys):
        return keys

    def p_random_bits(self, eqn, keys):
        raise Unsupported("raw random_bits outside a recognised sampler")

    def p_threefry2x32(self, eqn, *a):
        raise Unsupported("raw threefry")


def _wrap_elem(x):
    if isinstance(x, np.ndarray):
        return x
    o = np.empty((), dtype=object)
    o[()] = x
    return o


def _num_fn(name, x):
    if isinstance(x, NonFinite):
        return s_fn(name, x)
    f = float(x)
    import scipy.special as sp  # available in /venv
    table = {
        "exp": math.exp, "log": lambda v: math.log(v), "log1p": math.log1p, "expm1": math.expm1,
        "tanh": math.tanh, "logistic": lambda v: 1 / (1 + math.exp(-v)), "sqrt": math.sqrt,
        "rsqrt": lambda v: 1 / math.sqrt(v), "sin": math.sin, "cos": math.cos, "acos": math.acos,
        "atan": math.atan, "erf": math.erf, "erf_inv": lambda v: float(sp.erfinv(v)), "lgamma": math.lgamma,
    }
    try:
        return V.norm_conc(table[name](f))
    except (ValueError, OverflowError):
        return NonFinite(float("nan"))


# --------------------------------------------------------------------------
# named sampler sub-jaxprs, abstracted by their documented contract
def _concrete_call(self, eqn, args):
    """numeric mode: run the real sampler with real keys / floats."""
    real = []
    for v, a in zip(eqn.invars, args):
        if _is_key_dtype(v.aval.dtype):
            flat = [k.concrete for k in a.reshape(-1)]
            if any(c is None for c in flat):
                raise Unsupported("numeric mode needs concrete keys")
            ka = jnp.stack([jax.random.key_data(c) for c in flat]).reshape(a.shape + (-1,)) if a.shape else jax.random.key_data(flat[0])
            real.append(jax.random.wrap_key_data(ka))
        else:
            real.append(jnp.asarray(np.array([float(x) if not isinstance(x, (bool, int)) else x for x in a.reshape(-1)]).reshape(a.shape), dtype=v.aval.dtype))
    cj = eqn.params["jaxpr"]
    outs = jax.core.eval_jaxpr(cj.jaxpr, cj.consts, *real)
    return [obj_array(np.asarray(o)) for o in outs]


def _noise_reals(self, kind, key, shape, extra=()):
    def mk(nm):
        return V.sym_reals(nm, tuple(shape))
    return self.ctx.noise_arr(kind, key, shape, mk, extra)


def _h_uniform(self, eqn, key, lo, hi):
    if self.ctx.numeric:
        return _concrete_call(self, eqn, (key, lo, hi))
    shape = eqn.outvars[0].aval.shape
    k = key[()]
    u = _noise_reals(self, "u01", k, shape)
    for x in u.reshape(-1):
        c = z3.And(x >= 0, x < 1)
        if not any(z3.eq(c, a) for a in self.ctx.assumptions[-64:]):
            self.ctx.assumptions.append(c)
    lo_b, hi_b = np.broadcast_to(lo, shape), np.broadcast_to(hi, shape)
    # lo + (hi-lo)*u, clamped below by lo  (the real code computes exactly this)
    return vec(lambda a, b, x: s_max(a, s_add(s_mul(x, s_sub(b, a)), a)), 3)(lo_b, hi_b, u)


def _per_key(self, kind, key, out_shape):
    """noise for a (possibly batched, e.g. vmapped) key array: one independent block per key."""
    if key.shape == ():
        return _noise_reals(self, kind, key[()], out_shape)
    per = tuple(out_shape[len(key.shape):])
    out = np.empty(tuple(out_shape), dtype=object)
    for idx in np.ndindex(*key.shape):
        out[idx] = _noise_reals(self, kind, key[idx], per) if per else _noise_reals(self, kind, key[idx], ())[()]
    return out


def _h_normal(self, eqn, key):
    if self.ctx.numeric:
        return _concrete_call(self, eqn, (key,))
    return _per_key(self, "normal", key, eqn.outvars[0].aval.shape)


def _h_gumbel(self, eqn, key, *rest):
    if self.ctx.numeric:
        return _concrete_call(self, eqn, (key,) + rest)
    return _noise_reals(self, "gumbel", key[()], eqn.outvars[0].aval.shape)


def _h_truncated_normal(self, eqn, key, lo, hi):
    if self.ctx.numeric:
        return _concrete_call(self, eqn, (key, lo, hi))
    shape = eqn.outvars[0].aval.shape
    extra = (str(list(lo.reshape(-1))), str(list(hi.reshape(-1))))
    t = _noise_reals(self, "tnormal", key[()], shape, extra)
    lo_b, hi_b = np.broadcast_to(lo, shape), np.broadcast_to(hi, shape)
    for x, a, b in zip(t.reshape(-1), lo_b.reshape(-1), hi_b.reshape(-1)):
        self.ctx.assumptions.append(z3.And(V.to_z3(s_cmp("ge", x, a)), V.to_z3(s_cmp("le", x, b))))
    return t


def _h_randint(self, eqn, key, lo, hi):
    if self.ctx.numeric:
        return _concrete_call(self, eqn, (key, lo, hi))
    shape = eqn.outvars[0].aval.shape
    extra = (str(list(lo.reshape(-1))), str(list(hi.reshape(-1))))

    def mk(nm):
        return V.sym_ints(nm, tuple(shape))
    r = self.ctx.noise_arr("randint", key[()], shape, mk, extra)
    lo_b, hi_b = np.broadcast_to(lo, shape), np.broadcast_to(hi, shape)
    for x, a, b in zip(r.reshape(-1), lo_b.reshape(-1), hi_b.reshape(-1)):
        self.ctx.assumptions.append(z3.And(V.to_z3(s_cmp("ge", x, a)), V.to_z3(s_cmp("lt", x, b))))
    return r


def _h_shuffle(self, eqn, key, x):
    """Arbitrary permutation determined by the key (axis 0 of a 1-D array)."""
    if self.ctx.numeric:
        return _concrete_call(self, eqn, (key, x))
    n = x.shape[0]
    if x.ndim != 1:
        raise Unsupported("shuffle of rank>1")

    def mk(nm):
        return V.sym_ints(nm, (n,))
    perm = self.ctx.noise_arr("perm", key[()], (n,), mk)
    cs = [z3.And(p >= 0, p < n) for p in perm]
    if n > 1:
        cs.append(z3.Distinct(*list(perm)))
    for c in cs:
        if not any(z3.eq(c, a) for a in self.ctx.assumptions):
            self.ctx.assumptions.append(c)
    out = np.empty(n, dtype=object)
    for i in range(n):
        v = x[n - 1]
        for j in range(n - 2, -1, -1):
            v = s_ite(s_cmp("eq", perm[i], j), x[j], v)
        out[i] = v
    return out


def _h_bernoulli(self, eqn, key, p):
    if self.ctx.numeric:
        return _concrete_call(self, eqn, (key, p))
    shape = eqn.outvars[0].aval.shape
    u = _noise_reals(self, "u01", key[()], shape)
    for x in u.reshape(-1):
        self.ctx.assumptions.append(z3.And(x >= 0, x < 1))
    pb = np.broadcast_to(p, shape)
    return vec(lambda x, q: s_cmp("lt", x, q), 2)(u, pb)


_PRNG_NAMED = {
    "_uniform": _h_uniform,
    "_normal": _h_normal,
    "_normal_real": _h_normal,
    "_gumbel": _h_gumbel,
    "_truncated_normal": _h_truncated_normal,
    "_randint": _h_randint,
    "_shuffle": _h_shuffle,
    "_bernoulli": _h_bernoulli,
}
