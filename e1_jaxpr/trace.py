"""Trace a real function to its jaxpr and run it symbolically / numerically."""
from __future__ import annotations

from fractions import Fraction

import jax
import jax.experimental
import jax.numpy as jnp
import numpy as np
import z3

from e1_jaxpr.interp import AbsKey, Ctx, Interp, _is_key_dtype, _kind
from symcore import values as V


def _path_str(path):
    s = jax.tree_util.keystr(path)
    return s.replace("'", "").replace('"', "").replace(" ", "")


class Traced:
    """jaxpr of `fn` for the example arguments (shapes = the bound)."""

    def __init__(self, fn, *args, name=None):
        self.fn = fn
        self.name = name or getattr(fn, "__name__", "fn")
        self.args = args
        self.closed, self.out_shape = jax.make_jaxpr(fn, return_shape=True)(*args)
        leaves, self.in_tree = jax.tree_util.tree_flatten(args)
        self.in_leaves = leaves
        self.in_paths = [_path_str(p) for p, _ in jax.tree_util.tree_flatten_with_path(args)[0]]
        self.out_leaves, self.out_tree = jax.tree_util.tree_flatten(self.out_shape)
        self.n_eqns = _count_eqns(self.closed.jaxpr)

    # ---- inputs
    def sym_inputs(self, prefix=""):
        """Fresh symbols for every input leaf, named <prefix><path>[_i_j]; returned as a
        pytree with the structure of the arguments."""
        out = []
        for path, leaf, v in zip(self.in_paths, self.in_leaves, self.closed.jaxpr.invars):
            shape = tuple(v.aval.shape)
            k = _kind(v.aval.dtype)
            nm = prefix + path
            if k == "float":
                out.append(V.sym_reals(nm, shape))
            elif k == "int":
                out.append(V.sym_ints(nm, shape))
            elif k == "bool":
                out.append(V.sym_bools(nm, shape))
            else:
                a = np.empty(shape, dtype=object)
                for idx in np.ndindex(*shape) if shape else [()]:
                    a[idx] = AbsKey((nm,) + idx)
                out.append(a)
        return jax.tree_util.tree_unflatten(self.in_tree, out)

    def run(self, sym_args, ctx=None):
        """sym_args: pytree like the example args (leaves: object arrays or concrete arrays)."""
        ctx = ctx or Ctx()
        # object arrays are pytree leaves already (numpy arrays)
        flat = self.in_tree.flatten_up_to(sym_args)
        outs = Interp(ctx).eval_closed(self.closed, *flat)
        return jax.tree_util.tree_unflatten(self.out_tree, outs), ctx

    # ---- Serval-style validation of the interpreter against the real function
    def validate(self, arg_sets, rtol=2e-4, atol=2e-5):
        """Push concrete inputs through both the real function and the interpreter
        (numeric mode).  Returns number of compared output elements; raises on mismatch."""
        n = 0
        for args in arg_sets:
            flat = [l for l in jax.tree_util.tree_leaves(args)]
            ctx = Ctx(numeric=True)
            outs = Interp(ctx).eval_closed(self.closed, *flat)
            # the interpreter computes in exact rationals: compare with the real function run in float64 (float32
            # rounding can be amplified arbitrarily, e.g. by LayerNorm over two nearly equal values); fall back to the
            # float32 run with a loose tolerance if the function cannot run in float64
            real_leaves = None
            try:
                with jax.experimental.enable_x64():
                    real = self.fn(*to_x64(fresh_copy(args)))
                    real_leaves = [np.asarray(x) if not (hasattr(x, "dtype") and _is_key_dtype(x.dtype)) else x for x in jax.tree_util.tree_leaves(real)]
                tol_r, tol_a = rtol, atol
            except Exception:
                real_leaves = None
            if real_leaves is None or len(real_leaves) != len(outs):
                real = self.fn(*fresh_copy(args))  # nnx states are mutated in place by update routines
                real_leaves = jax.tree_util.tree_leaves(real)
                tol_r, tol_a = 2e-2, 2e-3
            def compare(leaves, tr_, ta_):
                cnt = 0
                assert len(outs) == len(leaves), (len(outs), len(leaves))
                for o, r in zip(outs, leaves):
                    if hasattr(r, "dtype") and _is_key_dtype(r.dtype):
                        continue
                    r = np.asarray(r)
                    got = np.array([_to_float(x) for x in o.reshape(-1)]).reshape(o.shape)
                    if r.dtype == np.bool_:
                        ok = np.array_equal(got.astype(bool), r)
                    else:
                        ok = np.allclose(got, r.astype(np.float64), rtol=tr_, atol=ta_, equal_nan=True)
                    if not ok:
                        return None, f"got {got}, real {r}"
                    cnt += r.size
                return cnt, None
            cnt, err = compare(real_leaves, tol_r, tol_a)
            if cnt is None and tol_r == rtol:
                # float64 run disagrees: PRNG draws differ between float32 and float64 mode - compare with the float32 run
                real = self.fn(*fresh_copy(args))
                cnt, err2 = compare(jax.tree_util.tree_leaves(real), 2e-2, 2e-3)
                err = err2 if cnt is None else None
            if cnt is None:
                raise AssertionError(f"interpreter/real mismatch in {self.name}: {err}")
            n += cnt
        return n


def to_x64(tree):
    def f(x):
        if isinstance(x, jax.Array) and not _is_key_dtype(x.dtype) and jnp.issubdtype(x.dtype, jnp.floating):
            return jnp.asarray(np.asarray(x, dtype=np.float64))
        return x
    leaves, td = jax.tree_util.tree_flatten(tree)
    return jax.tree_util.tree_unflatten(td, [f(l) for l in leaves])


def fresh_copy(tree):
    leaves, td = jax.tree_util.tree_flatten(tree)
    return jax.tree_util.tree_unflatten(td, [jnp.array(l, copy=True) if isinstance(l, jax.Array) and not _is_key_dtype(l.dtype) else l for l in leaves])


def _to_float(x):
    if isinstance(x, V.NonFinite):
        return x.f
    if isinstance(x, z3.ExprRef):
        s = z3.simplify(x)
        if z3.is_rational_value(s):
            return float(Fraction(s.numerator_as_long(), s.denominator_as_long()))
        raise V.Unsupported(f"symbolic value in numeric validation: {x}")
    return float(x)


def _count_eqns(jaxpr):
    n = 0
    for e in jaxpr.eqns:
        n += 1
        for p in e.params.values():
            if hasattr(p, "jaxpr") and hasattr(p.jaxpr, "eqns"):
                n += _count_eqns(p.jaxpr)
            elif hasattr(p, "eqns"):
                n += _count_eqns(p)
            elif isinstance(p, (tuple, list)):
                for q in p:
                    if hasattr(q, "jaxpr") and hasattr(q.jaxpr, "eqns"):
                        n += _count_eqns(q.jaxpr)
    return n
