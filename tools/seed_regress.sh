#!/bin/sh
# tools/seed_regress.sh [JOBS] : re-run, for every stored seeded change, the checks its meta.json says report it
# (scratch worktree per seed under /tmp, removed afterwards; results under /tmp/seedreg/<id>/).  Prints one line per
# (seed, check) and a final count of seeds no longer reported.
cd "$(dirname "$0")/.."
JOBS=${1:-6}
rm -rf /tmp/seedreg; mkdir -p /tmp/seedreg
ls seeded | while read id; do
  P=${id%%-*}; M=${id##*-}
  CH=$(python3 -c "import json;m=json.load(open('seeded/$id/meta.json'));print(' '.join(m.get('caught_by',{}).keys()) or '$P')")
  echo "$P $M $CH"
done | xargs -P $JOBS -L 1 sh -c 'P=$1; M=$2; shift 2; tools/seed_check.sh $P $M "$*" 2>&1 | cut -c1-200' _ > /tmp/seedreg/summary.txt
cat /tmp/seedreg/summary.txt
echo "not reported: $(grep -c "viol=0" /tmp/seedreg/summary.txt)"
rm -rf /tmp/reseed_*
