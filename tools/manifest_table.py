# Table consumed by gen_manifest.py
REAL = ("Real-number semantics of the traced jaxpr (float rounding, NaN/Inf outside the claim); shapes listed in the "
        "evidence are the bound; transcendental functions are uninterpreted with sound ground axioms; PRNG draws are "
        "arbitrary values in their documented range determined by the key; z3 is trusted (cvc5 cross-check in the thorough tier).")

claim("C18", E1,
      "Bounded symbolic check: the jaxprs of two_hot_encoding/decoding/cross_entropy, huber_loss, masked_mse_loss, avg_l1_norm and "
      "linear_schedule are interpreted over z3 reals and every sentence of the property is an SMT obligation decided for ALL real "
      "inputs of the bounded shapes (bin counts 2-5, batch 2-3, vectors 1-4, schedules T<=12).",
      REAL, "jaxpr -> SMT (z3 QF_NRA/UF), unsat = holds for all values within the shape bound; sat models replayed on the real code",
      "DESIGN.md §3 C18")

for _p in ["C01", "C02", "C03", "C04", "C05", "C06", "C07", "C08", "C09", "C10", "C11", "C12", "C13", "C14", "C15", "C16", "C17", "C19", "C20"]:
    NOT_APPLICABLE[_p] = "check not built yet in this round (planned in DESIGN.md §3); not claimed until its harness lands"
