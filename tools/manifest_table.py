# Table consumed by gen_manifest.py
REAL = ("Real-number semantics of the traced jaxpr (float rounding, NaN/Inf outside the claim); shapes listed in the "
        "evidence are the bound; transcendental functions are uninterpreted with sound ground axioms; PRNG draws are "
        "arbitrary values in their documented range determined by the key; z3 is trusted (cvc5 cross-check in the thorough tier).")

claim("C18", E1,
      "Bounded symbolic check: the jaxprs of two_hot_encoding/decoding/cross_entropy, huber_loss, masked_mse_loss, avg_l1_norm and "
      "linear_schedule are interpreted over z3 reals and every sentence of the property is an SMT obligation decided for ALL real "
      "inputs of the bounded shapes (bin counts 2-5, batch 2-3, vectors 1-4, schedules T<=12).",
      REAL, "jaxpr -> SMT (z3 QF_NRA/UF), unsat = holds for all values within the shape bound; sat models replayed on the real code",
      "DESIGN.md §3 C18")

NOT_APPLICABLE["C09"] = ("solver-based checking cannot decide bit-identical determinism of whole training runs: XLA float32 kernels are modelled as reals, "
                         "the environment is a stub and a full run is beyond any bound; a seed-provenance check of the Python layer would not be the property "
                         "as stated (DESIGN.md §4)")

claim("C07", E1,
      "Bounded symbolic check of compute_gae (T<=6), discounted_n_step_return (H<=5), discounted_reward_to_go (n<=7), prepare_a2c_batch "
      "(T<=4 x N<=3, real value MLP with symbolic parameters) and PPO's rollout layout fed to update_ppo's GAE: recurrences are SMT "
      "equalities against the reference recurrence for all real rewards/values/gamma/lambda and all 0/1 flag patterns; causality and "
      "cross-environment independence are two-copy (self-composition) queries.",
      REAL + " MR.Q critic target / encoder loss: nothing after the first terminated step of a subtrajectory matters (two-copy over generalised forward passes; seeded networks for replay). Reward-to-go also with integer-typed rewards (E2). PPO: the real train_ppo runs one iteration over a stub vector env and the advantage statements of update_ppo run on the intercepted arguments.",
      "jaxpr -> SMT; recurrence equalities + two-copy non-interference queries (unsat = holds for all values within the shape bound)",
      "DESIGN.md §3 C07")
NOT_APPLICABLE.pop("C07", None)

claim("C14", E1 + " + " + E2,
      "Bounded symbolic check of the jitted tabular updates (SARSA, Q-learning composed with its greedy successor action, double "
      "Q-learning, Dyna-Q's q_learning_update, Monte-Carlo update with episodes <= 3) on tables 3x2 / 2x3 / 4x2 with symbolic entries "
      "and symbolic in-range indices: every table entry of the result equals the textbook expression (ite over the visited entry).",
      REAL + " Dyna-Q's learned model: the real counter_update/model_update symbolically executed (E2) over histories of 3-4 symbolic transitions on 2 states x 2 actions with symbolic rewards, compared with empirical frequencies / mean rewards; the same comparison after every step of the real train_dynaq loop (its own Counter/ForwardModel initialisation) under a symbolic environment (reset state, action, successor, reward, termination per step; 2x2, 3-4 steps; Q-update and planning stubbed as identity).",
      "jaxpr -> SMT with symbolic gather/scatter indices as ite chains; per-entry equality obligations",
      "DESIGN.md §3 C14")
NOT_APPLICABLE.pop("C14", None)

claim("C10", E1 + " + " + E2,
      "Bounded symbolic check of ddpg.sample_actions, td3.sample_target_actions (the samplers every continuous-control loop uses), "
      "DeterministicTanhPolicy (constructor relation + scale_output), the make_* binders, cem_sample and cem_update for action "
      "dimensions 1-3: bounds, smoothing-noise bound and the 'clip(pi(o) + sigma*scale*n(key))' law are SMT obligations over all "
      "network outputs, bounds low<high, noise levels and keys.",
      REAL + " Policy network is a harness-owned FreeNet whose outputs are unconstrained reals. E2 part: in the DDPG/TD3/LAP/SAC/TD7/MR.Q/PETS loops the action given to env.step is the sampler's / planner's / action-space sample's return value, unmodified.",
      "jaxpr -> SMT (QF_NRA with tanh/sqrt as axiomatised UFs, PRNG draws as key-determined symbols)",
      "DESIGN.md §3 C10")
NOT_APPLICABLE.pop("C10", None)

claim("C13", E1 + " + " + E2,
      "Bounded symbolic check of the real SoftmaxPolicy, GaussianPolicy and GaussianTanhPolicy heads (unbatched observation, batch "
      "1-3, action dim 1-2, 2-4 discrete actions) over a free network whose outputs are arbitrary reals: probabilities, log-"
      "probabilities, entropies and samples are SMT-compared with the closed forms (softmax / diagonal Gaussian with clipped std, "
      "sample = mean + std*n(key), Gumbel-arg-max), plus greedy arg-max selection for Q-networks and Q-tables.",
      REAL + " E2 part: the eager epsilon_greedy_policy (symbolic epsilon and roll) and the action selection of the DQN-family loops (symbolic rolls vs the real linear schedule, warm-up; resumed runs with global_step > 0 against an arbitrary symbolic schedule).",
      "jaxpr -> SMT (QF_NRA + axiomatised exp/log/tanh; purified nlsat fallback); shape failures replayed eagerly",
      "DESIGN.md §3 C13")
NOT_APPLICABLE.pop("C13", None)

claim("C06", E1 + " + " + E2,
      "Bounded symbolic check of soft_target_net_update (un-jitted body with symbolic tau in [0,1]; jitted entry with tau in "
      "{0,0.005,0.25,1}) and hard_target_net_update on every leaf of 8 real module types (MLP, LayerNormMLP, clipped double-Q, "
      "tanh policy, SALE, SALE policy, SALE critics, encoder policy): target' = tau*online+(1-tau)*target, online unchanged, "
      "tau=1 hard copy, tau=0 no-op, for all parameter values.",
      REAL + " Cadence part (E2): the Nature-DQN/DDQN/PER, DDPG, TD3(+LAP), SAC, TD7 and MR.Q loops run on the recording world (K<=5 steps) and a target-update event must occur exactly at the documented steps, online->own target, with the configured tau; targets are distinct clones (nnx.clone itself is trusted).",
      "jaxpr -> SMT, one equality obligation per parameter leaf (linear/polynomial real arithmetic)",
      "DESIGN.md §3 C06")
NOT_APPLICABLE.pop("C06", None)

claim("C03", E1,
      "Bounded symbolic check of 13 losses (dqn, nature_dqn, ddqn, ddqn_per, ddpg, td3, td3_lap, sac, td7_update_critic, mrq_loss, "
      "SALE embedding loss, model_based_encoder_loss with/without target normalisation) traced with the real tiny rl_blox networks: "
      "mode P quantifies over ALL parameters/observations/actions by generalising the exported forward passes to free reals; loss and "
      "every auxiliary output = documented formula, terminated rows ignore the bootstrap (2-copy), batch-order invariance, zero "
      "gradient to target networks / successor inputs, batch-size-1 behaviour; mode C (seeded networks) only produces replayable "
      "counterexamples.",
      REAL + " Batch 1-3, obs dim 2, action dim 1, 3 discrete actions, hidden [2] (3 wherever a LayerNorm follows), horizons 2-3, 3 bins.",
      "jaxpr -> SMT with forward-pass generalisation (z3.substitute), QF_NRA+ite decided by a z3 portfolio (default / nlsat / ite-elim) in fresh contexts",
      "DESIGN.md §3 C03, §1.5")
NOT_APPLICABLE.pop("C03", None)

E2NOTE = ("Python ints -> z3 Int (unbounded), floats -> z3 Real; the real code objects run on proxies and fork at every symbolic "
          "branch after solver feasibility queries; histories are bounded as listed in the evidence; z3 is trusted; counterexamples "
          "are replayed by driving the same real code with the model's concrete values.")

claim("C20", E2,
      "Symbolic execution of the real MemoryLogger / StandardLogger / LoggerList / OrbaxCheckpointer methods: all histories of <=4 "
      "start/stop/record operations with symbolic lengths, values and optional explicit locations are compared with a list reference; "
      "the checkpointer's cadence is one inductive step over UNBOUNDED last/step/interval integers (save iff floor(step/f) > "
      "floor(last/f), exactly one save, path listed only after the save) plus 3-record histories; StandardLogger saves iff the epoch "
      "count is a multiple of a symbolic interval.",
      E2NOTE + " orbax is a recording stub: restorability of written directories is outside the claim.",
      "path-forking symbolic execution of the Python code objects (z3 feasibility + per-path validity queries), inductive step for the cadence",
      "DESIGN.md §3 C20")
NOT_APPLICABLE.pop("C20", None)

claim("C02", E2,
      "Symbolic execution of the real ReplayBuffer / LAP / PrioritizedReplayBuffer / MultiTaskReplayBuffer classes from the empty "
      "state: a symbolic number of additions n in [0,N+3] (capacities 1-4, so exact wrap-around and overwriting are covered) of "
      "transitions whose every field is a fresh symbol, then one sampled batch whose generator draws are arbitrary in-range values (plain buffers also with an intermediate, discarded sample_batch after one symbolic add position or after every add); "
      "length=min(n,N), every row equals (all fields) one of the last min(n,N) transitions, each of those is still held, never-"
      "written (poisoned) slots are never returned; multi-task: <=5 symbolic select/add/sample operations over 2-3 (4) tasks; an integer-typed first transition must not change the declared storage dtype. PLUS one inductive step: add_sample from an ARBITRARY state satisfying the representation invariant (symbolic cursor/length/contents) re-establishes it and shifts the logical FIFO content - histories of any length for capacities 1-4.",
      E2NOTE + " numpy allocation inside replay_buffer.py is shimmed to object arrays; the shim tracks the logical dtype of each allocation (writes into integer storage truncate as numpy's do); float64->float32 rounding is outside the claim.",
      "path-forking symbolic execution of the real classes under an allocation-only numpy shim; per-path SMT validity of the row-membership disjunction",
      "DESIGN.md §3 C02")
NOT_APPLICABLE.pop("C02", None)
claim("C15", E2,
      "assess_performance_and_checkpoint as ONE INDUCTIVE STEP over unbounded ints/reals from an arbitrary CheckpointState "
      "satisfying the invariant: released in {0, window sum}, release <=> window complete or cut short, counters reset / accumulate, "
      "checkpoint replaced <=> complete window with min return >= best, window-size switch <=> epoch < threshold <= epoch+window; "
      "plus histories of <=5 episodes with the ghost equation released + pending = collected.",
      E2NOTE + " train_td7 (K=3..5 steps) runs with the REAL assessment function and _train_step: released iterations, checkpoint copies and epoch advance are checked per path.",
      "path-forking symbolic execution of the real function (no loops => no unrolling bound) + bounded histories",
      "DESIGN.md §3 C15")
NOT_APPLICABLE.pop("C15", None)

claim("C04", E2,
      "Symbolic execution of the real SubtrajectoryReplayBuffer and SubtrajectoryReplayBufferPER from the empty state: every "
      "history of <=K adds whose terminated/truncated flags are symbolic (capacities 3-6, storage horizons 1-3, sampling horizons "
      "<= storage horizon, K up to N+2), then one sampled window for EVERY admissible start (generator draw symbolic); the window "
      "prefix up to its first terminated step must be same-episode, consecutive in time and in write sequence, free of truncated "
      "steps and of never-written slots; the reduced view must agree with the full view of the same start. Interleaved histories (capacity 3-4, K <= 4 quick / 6 thorough) additionally call sample_batch (concrete draw, result discarded) after one symbolic add position or after every add before the checked sample.",
      E2NOTE + " Observations are concrete ghost tags, rewards symbolic; capacities above 6 / horizons above 3 are outside the bound (no inductive step).",
      "path-forking symbolic execution (bounded model checking over flag patterns and start indices) of the real classes under the allocation shim",
      "DESIGN.md §3 C04")
NOT_APPLICABLE.pop("C04", None)
claim("C08", E2 + " + " + E1,
      "Symbolic execution of PriorityBuffer.prioritized_sampling, the stratified PER sampler, LAP / PER bookkeeping, "
      "compute_importance_ratio and the multi-task routing with symbolic positive priorities (n<=4), symbolic 0/1 masks, symbolic "
      "filled length and uniform variates in the open interval (0,1): the returned index is exactly the cumulative interval "
      "containing u*total (hence in range, unmasked, positive priority), new entries get the tracked maximum, update_priority "
      "rewrites exactly the last batch, max >= all / = true max after reset, weights in (0,1] with max 1 and antitone in priority; "
      "lap_priority/per_priority positive and monotone (jaxpr->SMT).",
      E2NOTE + " x**y is an axiomatised uninterpreted function; empirical frequencies under a real generator are not examined.",
      "path-forking symbolic execution + SMT validity of the cumulative-interval law; jaxpr -> SMT for the priority formulas",
      "DESIGN.md §3 C08")
NOT_APPLICABLE.pop("C08", None)

LOOPNOTE = (E2NOTE + " Environment, action-space sampler, function approximators, jitted update routines, PRNG and progress bars are "
            "recording nondeterministic stubs (each listed in the evidence); observations/actions are unique concrete tags; the "
            "remaining budget K is bounded (quick <=3, thorough <=5 steps).")
claim("C01", E2,
      "The real train_* code objects (DQN, Nature-DQN, DDQN, PER, DDPG, TD3, TD3+LAP, SAC, TD7, MR.Q, PETS) run on a recording "
      "world in which every step's reward/terminated/truncated is symbolic: for every path (all termination/truncation patterns, "
      "warm-up lengths, epsilon rolls; also Q-learning, SARSA, double-Q, Monte-Carlo, Dyna-Q, REINFORCE, A2C) each stored transition equals the environment log entry of that step (observation = last "
      "returned / reset observation, action passed to step, reward, successor, flag) and the acting stub saw the current observation.",
      LOOPNOTE + " Also covered: the five tabular loops (arguments of every update = that step's log entry, termination flag not truncation), REINFORCE's sample_trajectories with the real EpisodeDataset and A2C's collect_trajectories on a 2-environment vector stub. PPO's collect_trajectories is traced (E1) over a stub vector env: every rollout row = (current observation, action passed to env, that step's reward/flag, V(successor)), without and with a logger attached (concrete patterns of finished environments).",
      "path-forking symbolic execution of the training-loop code objects against a recording environment (bounded steps)",
      "DESIGN.md §3 C01, §2 F-LOOP")
NOT_APPLICABLE.pop("C01", None)
claim("C11", E2,
      "The same loop harness checks, on every path: executed steps <= remaining budget, stop once total_episodes episodes finished, "
      "the environment is never stepped after an episode end without reset (asserted inside the environment stub), no update-stub "
      "event before the documented warm-up step, and returned counter = start + executed; for DQN family, DDPG, TD3, TD3+LAP, SAC, "
      "TD7, MR.Q with budgets K in {0..5} and global_step in {0,2}.",
      LOOPNOTE + " Also covered: generate_rollout, uniform task sampling, SMT (both stages) and active multi-task training with train_st replaced by its contract (per-task totals = executed steps <= budget), RoundRobin / DUCB / DUCBGeneralized selectors (valid ids, strict alternation, initial round-robin, arg-max afterwards). Not covered: on-policy training loops' budgets.",
      "path-forking symbolic execution of the training-loop code objects (bounded steps), per-path SMT validity of the accounting equations",
      "DESIGN.md §3 C11, §2 F-LOOP")
NOT_APPLICABLE.pop("C11", None)

claim("C12", E1,
      "Bounded symbolic check of the actor objectives: pseudo-loss (softmax and Gaussian heads), DPG, SAC actor, TD7 actor, MR.Q "
      "policy loss values in mode P/C (forward outputs generalised); reinforce / actor-critic / A2C gradients equal the gradient "
      "jaxpr of the reference objective with stop-gradient weights (leaf-wise); PPO with a free-log-probability actor and free-table "
      "critics of output shape (N,1) and (N,): loss formula incl. per-sample value error, gradient at unchanged policy = unclipped "
      "surrogate, zero gradient for samples clipped on their favoured side; update_ppo over 2-3 epochs = SGD on ppo_loss against the rollout log-probabilities; actor gradients of DPG / TD7 SALE / MR.Q = gradient of the documented objective for all parameter values; first Adam step of the temperature moves alpha up "
      "exactly when -mean(log pi) < target entropy.",
      REAL + " Batch 2-3, 3 PPO samples; Adam's sqrt/eps arithmetic with axiomatised sqrt/exp.",
      "jaxpr (incl. gradient jaxprs) -> SMT with forward-pass generalisation; QF_NRA + axiomatised exp/sqrt",
      "DESIGN.md §3 C12")
NOT_APPLICABLE.pop("C12", None)

claim("C05", E1,
      "F-UPD: 24 routines (train_step_with_loss with the 8 critic losses, ddpg/sac/td7 actor updates, entropy-coefficient update, "
      "td7_update_critic, update_sale, MR.Q update_critic_and_policy, update_model_based_encoder, update_ppo, train_value_function, "
      "train_policy_reinforce/actor_critic/a2c, plus loss evaluation and acting as no-ops) are traced with ALL modules and optimizers "
      "as one symbolic pytree: every leaf of a component the routine is not documented to train must equal its input (one obligation "
      "per leaf, for all parameter values and batches); trained leaves must equal in - lr*grad(documented loss) under SGD.",
      REAL + " Batch 2, dims 1-2, hidden [2], one gradient step; optimizer state of the trained component may change. PETS train_epoch is checked under C17.",
      "jaxpr -> SMT; per-leaf equality obligations (mostly syntactic after scan/jit inlining) + gradient-step equation",
      "DESIGN.md §3 C05, §2 F-UPD")
NOT_APPLICABLE.pop("C05", None)

claim("C16", E1 + " + " + E2,
      "CMA-ES: set_evaluation_feedback symbolically executed over histories of 5 evaluations with symbolic (possibly tied) fitness: "
      "reported best fitness/parameters are those of a best evaluated candidate; update_search_distribution (n=2, population 4, "
      "default and active) traced to a jaxpr: new mean = weight-averaged best-mu candidates for every fitness order (24 cases shown "
      "exhaustive), variance growth <= exp(0.6)^2, covariance symmetric, default variant keeps variances positive; flat_params/"
      "set_params round trip is the identity on every leaf for 5 architectures; cem_update uses exactly the n_elite best (all "
      "orders incl. ties) with a convex mean/variance update. Recombination weights are closed constants (exact evaluation).",
      REAL + " Non-finite fitness and active-CMA-ES variance positivity are outside the claim; int/min shimmed for tracing.",
      "jaxpr -> SMT with rank/order case splits shown exhaustive; path-forking symbolic execution for the incumbent bookkeeping",
      "DESIGN.md §3 C16")
NOT_APPLICABLE.pop("C16", None)

claim("C17", E1,
      "Bounded symbolic check of the real GaussianMLPEnsemble (2-3 members, 1-3 outputs, vector and batch-2 inputs): member i's "
      "base_predict / base_distribution mean, variance and stddev equal slice i of the joint pass with one variance per output "
      "(shape failures replayed eagerly), soft log-variance bounds (lower exact, upper with analytic slack), aggregate = law of total "
      "variance, gaussian_nll closed form, train_ensemble hands each member only its own bootstrap indices each at most once per epoch "
      "(symbolic permutation), evaluate_plans = particle mean of horizon sums for an arbitrary linear reward model, ts_inf perturbs "
      "each state dimension with its own predicted variance (2-copy), pendulum_reward = environment cost formula.",
      REAL + " Index tags assumed distinct (parametricity); pendulum: arccos/cos link is a trusted lemma.",
      "jaxpr -> SMT (axiomatised exp/log1p), two-copy non-interference, symbolic permutations with Distinct constraints",
      "DESIGN.md §3 C17")
NOT_APPLICABLE.pop("C17", None)

claim("C19", E1 + " + " + E2,
      "Protocol layer of save/reload only: save_pickle/load_pickle, OrbaxCheckpointer.save_model + restore_checkpoint and "
      "StandardLogger._save_checkpoint are traced with the byte-level serializer replaced by a store-and-return stub: for 8 module "
      "types every Variable leaf handed to the serializer comes back identical and the reloaded module gives the same outputs (jaxpr "
      "-> SMT, all parameter values). Buffers (5 classes, capacity 3): after <=4 symbolic add/sample/update operations the object "
      "rebuilt through __getstate__/__setstate__ has identical attributes (incl. the rebuilt Batch type) and evolves identically "
      "under a further addition, a sample with the same generator draws and a priority update (also when saved between sampling and the priority update); MultiTaskReplayBuffer: the same task and batch are drawn after a reload for concrete activation orders incl. colliding ids. The orbax stub carries the library's restore contract (untargeted restore returns string-keyed dicts), validated against real orbax at every run; modules with > 10 list entries and a restore template that differs in every variable are included.",
      "Byte-level pickle streams, orbax/tensorstore, the file system and device placement are OUTSIDE this technique and outside the "
      "claim (copy.deepcopy drives the reduce protocol for symbolic contents; replays use real pickle). " + E2NOTE,
      "jaxpr -> SMT for module state completeness; path-forking symbolic execution of the buffer reduce protocol",
      "DESIGN.md §3 C19")
NOT_APPLICABLE.pop("C19", None)
