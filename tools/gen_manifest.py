#!/usr/bin/env python3
"""Regenerates MANIFEST.json from the table below (keeps it valid at all times)."""
import json
import os

HERE = os.path.dirname(os.path.dirname(os.path.abspath(__file__)))
BASELINE_OFF = ("cd /repo && /venv/bin/python -m pytest -ra -q -p no:cacheprovider --timeout=900 "
                "--continue-on-collection-errors --junitxml=<file>")

E1 = "E1 jaxpr2smt"
E2 = "E2 pysym"

# id -> dict(engine, category, text, note, technique, design_ref)
CLAIMED = {}
NOT_APPLICABLE = {}


def claim(pid, engine, text, note, technique, design_ref, category="model_checking"):
    CLAIMED[pid] = dict(engine=engine, text=text, note=note, technique=technique, design_ref=design_ref, category=category)


exec(open(os.path.join(HERE, "tools", "manifest_table.py")).read())

checks = []
for pid in sorted(CLAIMED):
    c = CLAIMED[pid]
    checks.append({
        "property_id": pid,
        "quick_cmd": f"./check {pid} --tier quick",
        "thorough_cmd": f"./check {pid} --tier thorough",
        "evidence_file": f"/verif/evidence/{pid}.json",
        "replay_cmd_template": f"./check {pid} --replay {{path}}",
        "engine": c["engine"],
        "level_claimed": {"category": c["category"], "text": c["text"], "design_ref": c["design_ref"]},
        "level_note": c["note"],
        "technique": c["technique"],
    })
man = {
    "version": 1,
    "setup_cmd": "./setup.sh",
    "hooks": {"guard": "RL_BLOX_VERIF", "enable": "none needed: checks trace / re-bind the unmodified sources of /repo",
              "baseline_off_cmd": BASELINE_OFF, "source_commits": [], "add_only": True},
    "engines": [
        {"name": E1, "path": "e1_jaxpr/", "serves_properties": sorted(p for p, c in CLAIMED.items() if E1 in c["engine"]),
         "kind_free_text": "interprets the jaxpr (compiler IR) of the real rl_blox functions over z3 terms; SMT decides each obligation for all values of the bounded shape"},
        {"name": E2, "path": "e2_pysym/", "serves_properties": sorted(p for p, c in CLAIMED.items() if E2 in c["engine"]),
         "kind_free_text": "executes the real Python code objects with z3-backed proxies, forking at symbolic branches after solver feasibility queries"},
    ],
    "checks": checks,
    "not_applicable": [{"property_id": p, "reason": r} for p, r in sorted(NOT_APPLICABLE.items())],
    "notes": "Solver-based checking of the real code; see DESIGN.md. Exit 2 = inconclusive/harness error (never a pass).",
}
json.dump(man, open(os.path.join(HERE, "MANIFEST.json"), "w"), indent=1)
print("claimed", sorted(CLAIMED), "n/a", sorted(NOT_APPLICABLE))
