#!/bin/sh
# tools/seed_eval.sh <PROP> <mK> [check-ids...] : confirm a seeded change (demo passes without / fails with, tests pass with)
# and run the listed checks (default: the property's own) against it.  Never leaves /repo modified.
P=$1; M=$2; shift 2; CHECKS=${@:-$P}
WT=/tmp/wt_$P; OUT=/tmp/out_$P/$M
cd $WT && git checkout -q -- . && git clean -fdq
R=/tmp/out_$P/$M/eval.txt; : > $R
run_demo() { (cd $WT && PYTHONPATH=$WT JAX_PLATFORMS=cpu timeout 900 /venv/bin/python $OUT/demo.py > $OUT/demo.$1.log 2>&1; echo $?); }
case "$(head -c 200 $OUT/demo.py)" in *pytest*|*"def test_"*) : ;; esac
if grep -q "^def test_" $OUT/demo.py && ! grep -q "__main__" $OUT/demo.py; then
  run_demo() { (cd $WT && PYTHONPATH=$WT JAX_PLATFORMS=cpu timeout 900 /venv/bin/python -m pytest -q -p no:cacheprovider $OUT/demo.py > $OUT/demo.$1.log 2>&1; echo $?); }
fi
echo "demo_without=$(run_demo without)" >> $R
(cd $WT && git apply $OUT/patch.diff) || { echo "patch_apply=FAILED" >> $R; cat $R; exit 1; }
echo "demo_with=$(run_demo with)" >> $R
FILES=$(cd $WT && git diff --name-only | tr '\n' ' ')
echo "files=$FILES" >> $R
(cd $WT && PYTHONPATH=$WT JAX_PLATFORMS=cpu timeout 3000 /venv/bin/python -m pytest -q -p no:cacheprovider -x --timeout=900 tests > $OUT/tests_with.log 2>&1; echo "tests_with_rc=$? $(tail -1 $OUT/tests_with.log)" >> $R)
cd $WT && git checkout -q -- . && git clean -fdq
cat $R
