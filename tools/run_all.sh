#!/bin/sh
# Re-run every claimed check (quick or $1) in parallel on the current /repo tree and summarise.  VERIF_SEED is honoured.
cd "$(dirname "$0")/.."
TIER=${1:-quick}
./setup.sh >/dev/null 2>&1
IDS=$(python3 -c "import json; print(' '.join(c['property_id'] for c in json.load(open('MANIFEST.json'))['checks']))")
mkdir -p .scratch/logs
echo $IDS | tr ' ' '\n' | xargs -P ${JOBS:-8} -I{} sh -c "./check {} --tier $TIER > .scratch/logs/{}.$TIER.log 2>&1; echo {} rc=\$? \$(grep '^OK\|^VIOLATION\|^INCONCLUSIVE' .scratch/logs/{}.$TIER.log | head -2 | cut -c1-150 | tr '\n' '|')"
