#!/bin/sh
# tools/seed_check.sh <PROP> <mK> [check-ids...] : run checks against a scratch worktree with the seeded patch applied
# (VERIF_REPO points the checks at that tree; evidence/replays go to /tmp/out_<P>/<mK>/verif, never to /verif/evidence).
P=$1; M=$2; shift 2; CHECKS=${@:-$P}
EV=/tmp/ev_${P}_$M
cd /verif
git -C /repo worktree remove --force $EV >/dev/null 2>&1
git -C /repo worktree add -q --detach $EV HEAD || exit 3
git -C $EV apply /tmp/out_$P/$M/patch.diff || { echo "patch does not apply"; git -C /repo worktree remove --force $EV; exit 3; }
mkdir -p /tmp/out_$P/$M/verif
for c in $CHECKS; do
  VERIF_REPO=$EV VERIF_OUT=/tmp/out_$P/$M/verif ./check $c --tier quick > /tmp/out_$P/$M/check_$c.log 2>&1; rc=$?
  echo "$P $M check $c rc=$rc viol=$(grep -c '^VIOLATION' /tmp/out_$P/$M/check_$c.log): $(grep '^VIOLATION\|^INCONCLUSIVE\|^OK\|^KNOWN' /tmp/out_$P/$M/check_$c.log | head -3 | cut -c1-170 | tr '\n' '|')"
done
git -C /repo worktree remove --force $EV
