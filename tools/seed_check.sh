#!/bin/sh
# tools/seed_check.sh <PROP> <mK> [check-ids...] : run checks against a scratch worktree with the seeded patch applied
# (VERIF_REPO points the checks at that tree; evidence/replays go to <dir>/verif, never to /verif/evidence).
# The patch is taken from /tmp/out_<P>/<mK>/patch.diff if present, else from /verif/seeded/<P>-<mK>/patch.diff.
P=$1; M=$2; shift 2; CHECKS=${@:-$P}
EV=/tmp/ev_${P}_$M
SRC=/tmp/out_$P/$M; [ -f $SRC/patch.diff ] || { SRC=/tmp/reseed_${P}_$M; mkdir -p $SRC; cp /verif/seeded/$P-$M/patch.diff $SRC/; }
cd /verif
git -C /repo worktree remove --force $EV >/dev/null 2>&1
git -C /repo worktree add -q --detach $EV HEAD || exit 3
git -C $EV apply $SRC/patch.diff || { echo "$P $M patch does not apply"; git -C /repo worktree remove --force $EV; exit 3; }
mkdir -p $SRC/verif
for c in $CHECKS; do
  VERIF_REPO=$EV VERIF_OUT=$SRC/verif ./check $c --tier quick > $SRC/check_$c.log 2>&1; rc=$?
  echo "$P $M check $c rc=$rc viol=$(grep -c '^VIOLATION' $SRC/check_$c.log): $(grep '^VIOLATION\|^INCONCLUSIVE\|^OK\|^KNOWN' $SRC/check_$c.log | head -3 | cut -c1-170 | tr '\n' '|')"
done
git -C /repo worktree remove --force $EV
