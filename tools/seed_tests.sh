#!/bin/sh
# re-run the repository test-suite with one seeded patch applied (in a scratch worktree)
P=$1; M=$2; WT=/tmp/tt_${P}_$M
git -C /repo worktree remove --force $WT >/dev/null 2>&1
git -C /repo worktree add -q --detach $WT HEAD && git -C $WT apply /tmp/out_$P/$M/patch.diff || exit 3
(cd $WT && PYTHONPATH=$WT JAX_PLATFORMS=cpu timeout 3000 /venv/bin/python -m pytest -q -p no:cacheprovider --timeout=1500 tests > /tmp/out_$P/$M/tests_with.log 2>&1; echo "tests_with_rc=$? $(tail -1 /tmp/out_$P/$M/tests_with.log)" > /tmp/out_$P/$M/tests_rerun.txt)
git -C /repo worktree remove --force $WT
cat /tmp/out_$P/$M/tests_rerun.txt
