#!/bin/sh
# Creates the overlay venv /verif/.venv on top of /venv (offline).
set -e
cd "$(dirname "$0")"
if [ -x .venv/bin/python ] && .venv/bin/python -c "import z3, jax, rl_blox" >/dev/null 2>&1; then
  exit 0
fi
rm -rf .venv
/venv/bin/python -m venv .venv
SP=$(.venv/bin/python -c "import site; print(site.getsitepackages()[0])")
echo "import site; site.addsitedir('/venv/lib/python3.12/site-packages')" > "$SP/_overlay.pth"
PIP_NO_INDEX=1 .venv/bin/python -m pip install -q --no-index --find-links /opt/veriftools/wheels z3-solver cvc5 crosshair-tool >/dev/null 2>&1 || \
PIP_NO_INDEX=1 .venv/bin/python -m pip install --no-index --find-links /opt/veriftools/wheels z3-solver cvc5 crosshair-tool
.venv/bin/python -c "import z3, jax, rl_blox, os; assert os.path.dirname(os.path.dirname(rl_blox.__file__)) == '/repo', rl_blox.__file__"
