"""C13 Policy heads: sampling, log-probability and entropy describe one distribution (E1)."""
from __future__ import annotations

import math
from fractions import Fraction

import jax
import jax.numpy as jnp
import numpy as np
import z3
from flax import nnx

from props.common import E1, tier_params
from props.nets import FakeBox, FreeGaussNet, FreeNet
from symcore import sarray as S
from symcore import values as V
from symcore.evidence import Report
from symcore.solver import Session

PROP = "C13"
HALF_LOG_2PI = Fraction(0.5 * math.log(2 * math.pi))
CONST_TOL = Fraction(1, 10**5)  # slack for the float32 literal of 0.5*log(2*pi) inside the traced program


def within(a, b, eps):
    a, b = S.SA(a), S.SA(b)
    if S.MODE.numeric:
        return S.close(a, b)
    return (a - b <= eps) & (b - a <= eps)


def logstd_of(log_var):
    return S.clip(Fraction(1, 2) * S.SA(log_var), -20, 2)


def batch_cases(tier):
    # (observation shape, batch, action dim)
    if tier == "quick":
        return [((4,), None, 1), ((1, 4), 1, 2), ((2, 4), 2, 1), ((3, 4), 3, 2)]
    return [((4,), None, 1), ((4,), None, 2), ((1, 4), 1, 1), ((1, 4), 1, 2), ((2, 4), 2, 1), ((2, 4), 2, 2), ((3, 4), 3, 2)]  # action dimension 3 with batch 3 was tried: the Gaussian log-density obligations end `unknown`


def main(tier, seed):
    from rl_blox.blox import q_policy, value_policy
    from rl_blox.blox.function_approximator.policy_head import GaussianPolicy, GaussianTanhPolicy, SoftmaxPolicy
    import gymnasium as gym

    tp = tier_params(tier)
    rep = Report(PROP, tier, seed)
    sess = Session(tp["timeout"])
    sess.keep_smt2 = tier == "thorough"
    rep.bounds = {"shapes": [str(c) for c in batch_cases(tier)], "softmax_actions": [2, 3], "greedy_actions": [2, 3, 4]}
    rep.assumptions = [
        "real-number semantics; exp/log/tanh uninterpreted with sound ground axioms (incl. log(exp t)=t)",
        "softmax / log-softmax compared in their shift-invariant forms with m=max(logits); the identity log(exp(x)/S)=x-log S is the trusted link between them",
        "0.5*log(2*pi) is a float literal in the traced program: Gaussian log-density/entropy equalities allow 1e-5 per dimension for its representation",
        "network = harness-owned FreeNet/FreeGaussNet (outputs range over all reals); heads are the real rl_blox classes",
        "Gumbel-max: argmax(logits+gumbel(key)) is a sample of Categorical(logits) (trusted fact); standard-normal draw n(key) arbitrary real determined by key",
    ]
    key0 = jax.random.key(seed)

    # ------------------------------------------------------------------ softmax head
    for (oshape, B, _) in batch_cases(tier):
        for n in ([2, 3] if (tier == "quick" or B) else [2, 3, 4]):
            nb = B or 1
            pol = SoftmaxPolicy(FreeNet((nb, n)))
            gdef, st = nnx.split(pol)
            obs0 = jnp.zeros(oshape)
            act0 = jnp.zeros((B,), dtype=jnp.int32) if B else jnp.array(0, dtype=jnp.int32)

            def f(state, obs, key, gdef=gdef, n=n, B=B):
                p = nnx.merge(gdef, state)
                lps = [p.log_probability(obs, jnp.full((B,), a, dtype=jnp.int32) if B else jnp.array(a, dtype=jnp.int32)) for a in range(n)]
                return p(obs), jnp.stack(lps, axis=-1), p.entropy(obs), p.sample(obs, key)
            site = f"SoftmaxPolicy[obs{oshape},n={n}]"
            try:
                e = E1(rep, sess, f, (st, obs0, key0), site, validate_sets=[(st, obs0, key0), (jax.tree_util.tree_map(lambda x: x + jnp.arange(x.size).reshape(x.shape) * 0.7, st), obs0, key0)])
            except V.Unsupported:
                raise
            except Exception as ex:
                _shape_failure(rep, site, "SoftmaxPolicy", oshape, ex, lambda: f(st, obs0, key0))
                continue
            logits = S.SA(jax.tree_util.tree_leaves(e.ins[0])[0]).reshape(nb, n)

            def canon(i):
                lg = S.SA(jax.tree_util.tree_leaves(i[0])[0]).reshape(nb, n)
                m = lg.max(axis=1).reshape(nb, 1)
                ex_ = S.exp(lg - S.bcast(m, (nb, n)))
                Ssum = ex_.sum(axis=1).reshape(nb, 1)
                return lg, m, ex_, Ssum
            e.obligation("probabilities-nonnegative", lambda i, o: S.SA(o[0]) >= 0)
            e.obligation("probabilities-sum-to-one", lambda i, o: S.close(S.SA(o[0]).reshape(nb, n).sum(axis=1), 1))
            e.obligation("probabilities=softmax(logits)",
                         lambda i, o: S.close(S.SA(o[0]).reshape(nb, n) * S.bcast(canon(i)[3], (nb, n)), canon(i)[2]))
            e.obligation("log_probability(a)=log-softmax(logits)[a]",
                         lambda i, o: S.close(S.SA(o[1]).reshape(nb, n), canon(i)[0] - S.bcast(canon(i)[1], (nb, n)) - S.bcast(S.log(canon(i)[3]), (nb, n))))
            e.obligation("entropy=-sum_a exp(logp_a)*logp_a",
                         lambda i, o: S.close(S.SA(o[2]).reshape(nb), -((S.exp(S.SA(o[1]).reshape(nb, n)) * S.SA(o[1]).reshape(nb, n)).sum(axis=1))), split=True, extreme=True)

            def sample_is_gumbel_argmax(i, o, nz):
                lg = canon(i)[0]
                g = nz.of("gumbel")[0].reshape(nb, n)
                smp = S.SA(o[3]).reshape(nb)
                goals = []
                for b in range(nb):
                    score = lg[b] + g[b]
                    chosen = score[n - 1]
                    for a in range(n - 2, -1, -1):
                        chosen = S.where(smp[b].eq(a), score[a], chosen)
                    goals.append((smp[b] >= 0) & (smp[b] < n))
                    for a in range(n):
                        goals.append(S.le(score[a], chosen))
                return goals
            e.obligation("sample=argmax(logits+gumbel(key))", sample_is_gumbel_argmax)

    # ------------------------------------------------------------------ Gaussian heads
    for (oshape, B, d) in batch_cases(tier):
        nb = B or 1
        obs0 = jnp.zeros(oshape)
        act0 = jnp.zeros((B, d)) if B else jnp.zeros((d,))
        box = FakeBox(-np.ones(d, dtype=np.float32), np.ones(d, dtype=np.float32) * 3)
        for cls_name, mk in (("GaussianPolicy", lambda: GaussianPolicy(FreeGaussNet(nb, d))),
                             ("GaussianTanhPolicy", lambda: GaussianTanhPolicy(FreeGaussNet(nb, d), box))):
            pol = mk()
            gdef, st = nnx.split(pol)

            def stats(p, obs, cls_name=cls_name):
                if cls_name == "GaussianTanhPolicy":
                    return p(obs)
                mean, log_var = p.net(obs)
                return mean, None

            def f(state, obs, act, key, gdef=gdef):
                p = nnx.merge(gdef, state)
                return p.log_probability(obs, act), p.entropy(obs), p.sample(obs, key)
            site = f"{cls_name}[obs{oshape},d={d}]"
            st2 = jax.tree_util.tree_map(lambda x: x + jnp.arange(x.size).reshape(x.shape) * 0.3 - 0.2, st)
            try:
                e = E1(rep, sess, f, (st, obs0, act0, key0), site, validate_sets=[(st, obs0, act0 + 0.4, key0), (st2, obs0, act0 - 1.0, key0)])
            except V.Unsupported:
                raise
            except Exception as ex:
                _shape_failure(rep, f"{cls_name}:defined-for-every-batch-size-and-action-dimension", cls_name, (oshape, d), ex,
                               lambda f=f, st=st: f(st, obs0, act0, key0))
                continue
            shp = (nb, d)

            def mean_std(i, cls_name=cls_name):
                leaves = {jax.tree_util.keystr(p): l for p, l in jax.tree_util.tree_leaves_with_path(i[0])}
                mean_raw = S.SA([l for k, l in leaves.items() if "mean" in k][0]).reshape(shp)
                log_var = S.SA([l for k, l in leaves.items() if "log_var" in k][0]).reshape(shp)
                ls = logstd_of(log_var)
                if cls_name == "GaussianTanhPolicy":
                    scale = S.SA([l for k, l in leaves.items() if "action_scale" in k][0])
                    bias = S.SA([l for k, l in leaves.items() if "action_bias" in k][0])
                    mean = S.tanh(mean_raw) * S.bcast(scale, shp) + S.bcast(bias, shp)
                else:
                    mean = mean_raw
                return mean, ls

            def logp_spec(i, o):
                mean, ls = mean_std(i)
                a = S.SA(i[2]).reshape(shp)
                z = (a - mean) / S.exp(ls)
                per_dim = -ls - HALF_LOG_2PI - Fraction(1, 2) * z * z
                return within(S.SA(o[0]).reshape(nb), per_dim.sum(axis=1), CONST_TOL * d)
            e.obligation("log_probability=closed-form-diagonal-Gaussian(mean,exp(clip(logvar/2,-20,2)))", logp_spec, split=True)

            def ent_spec(i, o):
                mean, ls = mean_std(i)
                return within(S.SA(o[1]).reshape(shp), ls + HALF_LOG_2PI + Fraction(1, 2), CONST_TOL)
            ent_site = f"{cls_name}.entropy:per-dimension-closed-form"
            if np.asarray(e.outs[1], dtype=object).size != nb * d:
                real_shape = tuple(np.shape(f(st, obs0, act0, key0)[1]))
                rep.replayed += 1
                want = oshape[:-1] + (d,)
                if real_shape != want:
                    rep.violation(ent_site, f"{cls_name}.entropy returns shape {real_shape} instead of per-dimension {want} for obs{oshape}", {"shape": str(oshape)})
                else:
                    rep.inconclusive_(ent_site, "traced/eager shape disagreement")
            else:
                e.obligation("entropy=per-dimension-0.5+0.5log(2pi)+log(std)", ent_spec, site=ent_site)

            layout = _noise_layout(e.outs[2], e.noise.of("normal")[0])

            def sample_spec(i, o, nz, layout=layout):
                mean, ls = mean_std(i)
                n_ = S.SA(nz.of("normal")[0].a.reshape(-1)[layout]).reshape(shp)
                return S.close(S.SA(o[2]).reshape(shp), mean + S.exp(ls) * n_)
            e.obligation("sample=mean+std*n(key)", sample_spec)

            # standardised-noise invariance: same key, different mean/scale -> same (sample-mean)/std
            def vary(ins):
                m = jax.tree_util.tree_map(lambda x: np.ones(np.shape(x), dtype=bool), ins[0])
                return (m, None, None, None)
            insB, outsB, ctxB = e.second_copy(vary)
            mA, lA = mean_std(e.ins)
            mB, lB = mean_std(insB)
            zA = (S.SA(e.outs[2]).reshape(shp) - mA)
            zB = (S.SA(outsB[2]).reshape(shp) - mB)
            goal = S.close(zA * S.exp(lB), zB * S.exp(lA)).all()
            q = sess.prove(f"{site}:standardised-noise-invariance(2-copy,same key)", list(e.hyps) + list(ctxB.assumptions), goal)
            if q.verdict != "unsat":
                rep.inconclusive_(f"{site}:standardised-noise-invariance", f"{q.verdict} (covered by sample=mean+std*n(key) replay)")

    # ------------------------------------------------------------------ greedy selection
    for n in ([2, 3] if tier == "quick" else [2, 3, 4, 5]):
        qn = FreeNet((1, n))
        gdef, st = nnx.split(qn)

        def g(state, obs, gdef=gdef):
            net = nnx.merge(gdef, state)
            return q_policy.greedy_policy(net, obs), net(jnp.array([obs]))
        ex = (st, jnp.zeros(3))
        st2 = jax.tree_util.tree_map(lambda x: jnp.array(np.random.default_rng(seed).normal(size=x.shape), dtype=x.dtype), st)
        e = E1(rep, sess, g, ex, f"q_policy.greedy_policy[n={n}]", validate_sets=[ex, (st2, jnp.zeros(3))])

        def is_max(i, o, n=n):
            a, q = S.SA(o[0]), S.SA(o[1]).reshape(n)
            chosen = q[n - 1]
            for k in range(n - 2, -1, -1):
                chosen = S.where(a.eq(k), q[k], chosen)
            return [(a >= 0) & (a < n)] + [S.le(q[k], chosen) for k in range(n)]
        e.obligation("returns-a-maximiser", is_max)

        nS = 3
        ex = (jnp.array(np.random.default_rng(seed).normal(size=(nS, n)), dtype=jnp.float32), 1)
        e = E1(rep, sess, value_policy.greedy_policy, ex, f"value_policy.greedy_policy[{nS}x{n}]", validate_sets=[ex])
        e.add_hyp(S.SA(e.ins[1]) >= 0, S.SA(e.ins[1]) < nS)

        def is_max_tab(i, o, n=n):
            qt, s, a = S.SA(i[0]), S.SA(i[1]), S.SA(o)
            goals = [(a >= 0) & (a < n)]
            for si in range(nS):
                row = qt[si]
                chosen = row[n - 1]
                for k in range(n - 2, -1, -1):
                    chosen = S.where(a.eq(k), row[k], chosen)
                for k in range(n):
                    goals.append(~s.eq(si) | S.le(row[k], chosen))
            return goals
        e.obligation("returns-a-maximiser-of-the-row", is_max_tab)

    _loops_and_epsilon_greedy(rep, tier, seed)
    if tier == "thorough":
        bad = sess.cross_check()
        rep.extra["cvc5_disagreements"] = bad
        if bad:
            rep.inconclusive_("cross-check", f"{bad} z3/cvc5 disagreements")
    rep.add_queries(sess)
    rep.samples = [o["name"] for o in rep.obligations if o["kind"] == "obligation"][:12]
    return rep.finish()


def _loops_and_epsilon_greedy(rep, tier, seed):
    """E2 part: the eager epsilon_greedy_policy and the action selection inside the DQN-family loops."""
    from e2_pysym import core as E
    from e2_pysym.core import sym_real, sym_int
    from props import loops as L
    from props import loopworld as W
    from props.e2common import E2Report, overlay
    from rl_blox.blox import value_policy as vp
    from rl_blox.blox.schedules import linear_schedule
    e2 = E2Report(PROP, tier, seed)
    e2.r = rep  # fold into the same report

    def eps_prog(ctx):
        shim = W.JaxRandomShim(True)
        calls = []

        def greedy(q, o):
            calls.append((q, o))
            return 4242
        q_table = jnp.asarray(np.random.default_rng(seed).normal(size=(3, 2)), dtype=jnp.float32)
        obs = int(sym_int("obs", 0, 2))
        eps = sym_real("epsilon", 0, 1)
        with overlay(vp, random=shim, greedy_policy=greedy):
            a = vp.epsilon_greedy_policy(q_table, obs, eps, ("key", 0))
        roll = shim.draws[0][0]
        explored = roll < eps
        is_random = len(shim.choices) == 1 and a == shim.choices[0][2]
        is_greedy = len(calls) == 1 and a == 4242 and calls[0][0] is q_table and calls[0][1] == obs
        ctx.check(is_random == explored, "epsilon-greedy:random-action-exactly-when-roll<epsilon")
        ctx.check(is_greedy == (~explored if not isinstance(explored, bool) else not explored), "epsilon-greedy:otherwise-greedy-on-the-given-table-and-observation")
        ctx.check((~(eps == 0)) | is_greedy if not isinstance(eps == 0, bool) else ((eps != 0) or is_greedy), "epsilon=0-is-greedy")
        ctx.check((~(eps == 1)) | is_random if not isinstance(eps == 1, bool) else ((eps != 1) or is_random), "epsilon=1-ignores-the-values")
        if is_random:
            ctx.check(len(shim.choices[0][1]) == 2, "random-action-drawn-from-all-actions-of-the-row")
    e2.run("value_policy.epsilon_greedy_policy", eps_prog, fn="rl_blox.blox.value_policy.epsilon_greedy_policy")

    def eps_prog_tuple(ctx):
        """Q-table over a Tuple observation space (make_q_table supports it): the random action ranges over the LAST axis."""
        shim = W.JaxRandomShim(True)
        q_table = jnp.zeros((2, 3, 4))
        obs = (int(sym_int("o1", 0, 1)), int(sym_int("o2", 0, 2)))
        eps = sym_real("epsilon", 0, 1)
        with overlay(vp, random=shim, greedy_policy=lambda q, o: 4242):
            a = vp.epsilon_greedy_policy(q_table, obs, eps, ("key", 0))
        if len(shim.choices) == 1:
            ctx.check(len(shim.choices[0][1]) == 4, "random-action-drawn-from-all-actions-of-the-row")
    e2.run("value_policy.epsilon_greedy_policy[tuple observation]", eps_prog_tuple, fn="rl_blox.blox.value_policy.epsilon_greedy_policy")

    def loop_prog(which, K, start, sym_schedule=False):
        def prog(ctx):
            tr = L.run_dqn_family(ctx, which, K, start, symbolic=("learning_starts", "rolls") + (("schedule",) if sym_schedule else ()))
            total = start + K
            eps = np.asarray(linear_schedule(total))
            if sym_schedule:
                calls = getattr(tr.w, "schedule_calls", [])
                ctx.check(len(calls) >= 1 and all(int(c[0]) == total for c in calls), "loop:exploration-schedule-spans-the-whole-run(total_timesteps)")
            rolls = None
            import importlib
            # the shim instance is not reachable from the trace: recover the rolls from the path's symbols by name order
            greedy = {at: p for (_, at, p) in tr.w.of("greedy_policy")}
            sampled = {at: p for (_, at, p) in tr.w.of("space_sample")}
            ls = tr.cfg.get("learning_starts", 0)
            for k, st in enumerate(tr.env.steps):
                s_ = start + k
                a = W.tagval(st["action"])
                from_greedy = k in greedy and a >= 2000
                from_sampler = k in sampled and 1000 <= a < 2000
                ctx.check(from_greedy != from_sampler, "loop:action-comes-from-exactly-one-of-greedy-policy/uniform-sampler")
                if from_greedy:
                    ctx.check(greedy[k]["args"][0] is tr.cfg["q"], "loop:greedy-action-uses-the-current-online-estimate")
                    ctx.check(W.tagval(greedy[k]["args"][1]) == W.tagval(st["obs"]), "loop:greedy-action-uses-the-current-observation")
                rolls_ = getattr(tr.w, "rolls", None)
                # the pre-drawn rolls are i.i.d.: whether they are indexed by the absolute step or by the step of this
                # call is an implementation detail; the scheduled epsilon is the one of the ABSOLUTE step
                roll = None if rolls_ is None else (rolls_[s_] if len(rolls_) == total else (rolls_[k] if len(rolls_) == K else None))
                if roll is not None:
                    explore = (roll < (tr.w.schedule_eps[s_] if sym_schedule else float(eps[s_])))
                    if which != "dqn":
                        explore = (s_ < ls) | explore if not isinstance(s_ < ls, bool) or not isinstance(explore, bool) else ((s_ < ls) or explore)
                    ctx.check(from_sampler == explore, "loop:explores-exactly-when-roll<scheduled-epsilon(or-warm-up),-acts-greedily-otherwise")
        return prog
    for which in ("dqn", "nature_dqn", "ddqn", "per"):
        for K in ([2, 3] if tier == "quick" else [2, 3, 4]):
            e2.run(f"action-selection:train_{which}[K={K}]", loop_prog(which, K, 0), fn=f"rl_blox.algorithm.{which}", site_of=lambda label, which=which: f"train_{which}:{label}")
        # resumed training (global_step > 0): the schedule continues at the absolute step, it does not restart
        e2.run(f"action-selection:train_{which}[K=2,global_step=3,symbolic schedule]", loop_prog(which, 2, 3, True), fn=f"rl_blox.algorithm.{which}", site_of=lambda label, which=which: f"train_{which}:{label}")
    rep.bounds["loops"] = "DQN family, K<=4 steps, global_step in {0,3}, symbolic epsilon rolls in [0,1), learning_starts symbolic; epsilon_greedy_policy: symbolic epsilon in [0,1] and roll"
    rep.extra["e2_paths"] = rep.paths


def _noise_layout(out, noise):
    """The arrangement of the key-determined noise inside the sample is an implementation detail:
    recover it from which noise symbol occurs in which output element; must be a bijection."""
    flat_noise = list(noise.a.reshape(-1))
    ids = {x.get_id(): k for k, x in enumerate(flat_noise)}
    layout = []
    for el in np.asarray(out, dtype=object).reshape(-1):
        found = set()
        stack, seen = [el], set()
        while stack:
            t = stack.pop()
            if not isinstance(t, z3.ExprRef) or t.get_id() in seen:
                continue
            seen.add(t.get_id())
            if t.get_id() in ids:
                found.add(ids[t.get_id()])
            stack.extend(t.children())
        if len(found) != 1:
            raise V.Unsupported(f"sample element depends on {len(found)} noise symbols")
        layout.append(found.pop())
    if sorted(layout) != list(range(len(flat_noise))):
        raise V.Unsupported("noise layout is not a bijection")
    return np.array(layout)


def _shape_failure(rep, site, cls, shape, ex, eager):
    """Tracing raised: 'defined for every batch size / action dimension' is violated if the
    eager real call raises as well (replay)."""
    try:
        eager()
    except Exception as ex2:
        rep.replayed += 1
        rep.violation(site, f"{cls} raises {type(ex2).__name__} for shape {shape}: {str(ex2)[:160]}", {"shape": str(shape)})
        return
    rep.inconclusive_(site, f"tracing raised {type(ex).__name__} but the eager call succeeded")


def replay(path):
    import json
    print(json.dumps(json.load(open(path)), indent=1))
    return main("quick", 0)
