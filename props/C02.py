"""C02 Replay buffer is a faithful fixed-capacity FIFO of whole transitions (E2 on the real classes)."""
from __future__ import annotations

import contextlib

import numpy as np
import z3

from e2_pysym import core as E
from e2_pysym.core import sym_bool, sym_int, sym_real
from e2_pysym.npshim import JnpShim, NpShim, RngStub, is_poison
from props.e2common import E2Report, overlay

PROP = "C02"
FIELDS = ["observation", "action", "reward", "next_observation", "termination"]


def sym_transition(i, obs_dim):
    return {
        "observation": [sym_real(f"o{i}_{k}") for k in range(obs_dim)],
        "action": sym_real(f"a{i}"),
        "reward": sym_real(f"r{i}"),
        "next_observation": [sym_real(f"no{i}_{k}") for k in range(obs_dim)],
        "termination": sym_bool(f"t{i}"),
    }


def sym_transition_int(i, obs_dim):
    """A transition whose fields happen to be integer-typed (integer start observation, reward 0, ...)."""
    return {
        "observation": [sym_int(f"io{i}_{k}", -3, 3) for k in range(obs_dim)],
        "action": sym_int(f"ia{i}", -3, 3),
        "reward": sym_int(f"ir{i}", -3, 3),
        "next_observation": [sym_int(f"ino{i}_{k}", -3, 3) for k in range(obs_dim)],
        "termination": sym_bool(f"t{i}"),
    }


def _eq(a, b):
    """element-wise equality of a stored field with a reference field (proxy bool / python bool)."""
    a = list(np.asarray(a, dtype=object).reshape(-1))
    b = list(np.asarray(b, dtype=object).reshape(-1))
    if len(a) != len(b):
        return False
    acc = True
    for x, y in zip(a, b):
        if is_poison(x) or is_poison(y):
            return False
        if isinstance(y, (E.SymBool, bool)) and not isinstance(x, (E.SymBool, bool)):
            # documented storage dtype of flags is int: compare as 0/1
            y = y * 1 if isinstance(y, E.SymBool) else int(y)
        acc = acc & (x == y) if not isinstance(acc, bool) or not acc is True else (x == y)
    return acc


def row_matches(batch, b, tr):
    acc = True
    for k in FIELDS:
        c = _eq(getattr(batch, k)[b], tr[k])
        acc = c if acc is True else (acc & c)
    return acc


def any_of(conds):
    acc = False
    for c in conds:
        acc = c if acc is False else (acc | c)
    return acc


def fifo_program(cls_name, N, obs_dim, B, extra_adds, int_first=False, probe=True):
    from rl_blox.blox import replay_buffer as rb

    def prog(ctx):
        sym = not getattr(ctx, "is_replay", False)
        with overlay(rb, np=NpShim(typed=int_first), jnp=JnpShim()):
            buf = getattr(rb, cls_name)(N)
            n = int(sym_int("n_adds", 0, N + extra_adds))
            ref = []
            # interleaved histories: an intermediate sample_batch (concrete draw, result discarded) after add number
            # `probe_after` (-1: none, n: after every add) must not change what the checked sample may return
            pa = int(sym_int("probe_after", -1, n)) if (probe and n > 1) else -1
            for i in range(n):
                tr = sym_transition_int(i, obs_dim) if (int_first and i == 0) else sym_transition(i, obs_dim)
                buf.add_sample(**tr)
                ref.append(tr)
                ctx.check(len(buf) == min(i + 1, N), "length=min(n,N)")
                if i < n - 1 and (pa == n or pa == i):
                    from props.C04 import ProbeRng
                    ctx.log.append("sample")
                    buf.sample_batch(B, ProbeRng())
            ctx.log.append(f"{cls_name}(N={N}): {n} adds")
            if n == 0:
                ctx.check(len(buf) == 0, "empty-buffer-length-0")
                return
            live = ref[-min(n, N):]
            rng = RngStub()
            try:
                out = buf.sample_batch(B, rng)
            except Exception as ex:  # a non-empty buffer must deliver a batch (any batch size): an exception is a failed check
                ctx.log.append(f"sample_batch({B}) raised {type(ex).__name__}: {ex}")
                ctx.check(False, "sampling-a-non-empty-buffer-returns-a-batch")
            batch = out[0] if cls_name == "PrioritizedReplayBuffer" else out
            for k in FIELDS:
                ctx.check(len(getattr(batch, k)) == B, "batch-size")
            for b in range(B):
                ctx.check(any_of([row_matches(batch, b, tr) for tr in live]),
                          "every-batch-row-is-one-of-the-most-recent-min(n,N)-transitions-with-all-fields-from-the-same-transition")
            # logical content = the most recent min(n,N) transitions: force every slot to be drawn
            for j, tr in enumerate(live):
                pass
    return prog


def content_program(cls_name, N, obs_dim, extra_adds, int_first=False):
    """Every one of the most recent min(n,N) transitions is still retrievable, unmodified.  int_first: the first
    transition's fields are integer-typed values (the storage must still be the declared float storage)."""
    from rl_blox.blox import replay_buffer as rb

    def prog(ctx):
        sym = not getattr(ctx, "is_replay", False)
        with overlay(rb, np=NpShim(typed=int_first), jnp=JnpShim()):
            buf = getattr(rb, cls_name)(N)
            n = int(sym_int("n_adds", 1, N + extra_adds))
            ref = []
            for i in range(n):
                tr = sym_transition_int(i, obs_dim) if (int_first and i == 0) else sym_transition(i, obs_dim)
                buf.add_sample(**tr)
                ref.append(tr)
            live = ref[-min(n, N):]
            # storage as seen through the public sampler with an index-enumerating generator
            class Enum:
                def integers(self, lo, hi, size):
                    return np.arange(lo, hi)[:size] if False else np.arange(lo, hi)
            batch = buf.sample_batch(len(live), Enum())
            m = len(getattr(batch, "reward"))
            ctx.check(m == len(live), "sampler-range-covers-exactly-the-filled-region")
            for tr in live:
                ctx.check(any_of([row_matches(batch, b, tr) for b in range(m)]), "each-of-the-most-recent-min(n,N)-transitions-is-held-unmodified")
    return prog


def inductive_program(cls_name, N):
    """ONE add from an ARBITRARY reachable state (representation invariant assumed): histories of any length."""
    from rl_blox.blox import replay_buffer as rb
    from e2_pysym.npshim import SymArr

    def prog(ctx):
        with overlay(rb, np=NpShim(), jnp=JnpShim()):
            buf = getattr(rb, cls_name)(N)
            buf.add_sample(**sym_transition(0, 1))  # allocates the storage
            # arbitrary contents, arbitrary cursor / length satisfying the representation invariant
            pre = {}
            for k in FIELDS:
                shape = buf.buffer[k].shape
                arr = np.empty(shape, dtype=object)
                for idx in np.ndindex(*shape):
                    arr[idx] = sym_bool(f"pre_{k}_{idx}") if k == "termination" else sym_real(f"pre_{k}_{'_'.join(map(str, idx))}")
                buf.buffer[k] = SymArr(arr)
                pre[k] = arr.copy()
            idx0 = sym_int("insert_idx", 0, N - 1)
            len0 = sym_int("current_len", 1, N)
            ctx.assume((len0 == N) | (idx0 == len0))  # before the buffer is full the cursor equals the length
            buf.insert_idx, buf.current_len = idx0, len0
            tr = sym_transition(1, 1)
            buf.add_sample(**tr)
            i0, l0 = int(idx0), int(len0)
            ctx.check(len(buf) == min(l0 + 1, N), "induction:length=min(n+1,N)")
            ctx.check(int(buf.insert_idx) == (i0 + 1) % N, "induction:cursor-advances-cyclically")
            ctx.check((int(buf.current_len) == N) or (int(buf.insert_idx) == int(buf.current_len)), "induction:representation-invariant-preserved")
            for k in FIELDS:
                for j in range(N):
                    got = buf.buffer[k][j]
                    want = tr[k] if j == i0 else pre[k][j]
                    ctx.check(_eq(got, want), "induction:only-the-cursor-slot-is-overwritten,-with-the-whole-new-transition")
            # logical FIFO content: k-th most recent transition lives in slot (cursor-1-k) mod N
            l1, i1 = int(buf.current_len), int(buf.insert_idx)
            for k in range(1, l1):
                ctx.check((i1 - 1 - k) % N == (i0 - 1 - (k - 1)) % N and (i1 - 1 - k) % N != i0, "induction:older-transitions-shift-by-one-in-recency-order")
            # the sampler's index range [0, current_len) is exactly the set of slots holding the logical content
            live = {(i1 - 1 - k) % N for k in range(l1)}
            ctx.check(live == set(range(l1)), "induction:sampler-range-equals-the-slots-of-the-most-recent-min(n,N)-transitions")
    return prog


def multitask_program(T, N, n_ops):
    from rl_blox.blox import replay_buffer as rb

    def prog(ctx):
        sym = not getattr(ctx, "is_replay", False)
        with overlay(rb, np=NpShim(), jnp=JnpShim()):
            mt = rb.MultiTaskReplayBuffer(rb.ReplayBuffer(N), T)
            ref = [[] for _ in range(T)]
            sel = 0
            for i in range(n_ops):
                op = sym_int(f"op{i}", 0, 2)
                if op == 0:
                    t = sym_int(f"task{i}", -1, T)
                    if (t >= 0) & (t < T):
                        mt.select_task(int(t))
                        sel = int(t)
                    else:
                        try:
                            mt.select_task(int(t))
                            ctx.check(False, "invalid-task-id-rejected")
                        except ValueError:
                            pass
                elif op == 1:
                    tr = sym_transition(i, 1)
                    mt.add_sample(**tr)
                    ref[sel].append(tr)
                    for t in range(T):
                        ctx.check(len(mt.buffers[t]) == min(len(ref[t]), N), "additions-go-only-to-the-selected-task")
                else:
                    if not any(ref):
                        continue
                    try:
                        batch = mt.sample_batch(2, rng=RngStub(f"rng{i}"))
                    except Exception as ex:  # some task has data, so a batch must be produced from it
                        ctx.log.append(f"sample_batch raised {type(ex).__name__}: {ex}")
                        ctx.check(False, "batch-comes-from-a-task-that-already-has-data")
                    src = int(mt.sampled_task_idx)
                    ctx.check(len(ref[src]) > 0, "batch-comes-from-a-task-that-already-has-data")
                    live = ref[src][-N:]
                    for b in range(2):
                        ctx.check(any_of([row_matches(batch, b, tr) for tr in live]), "each-batch-comes-from-a-single-task")
            ctx.check(len(mt) == sum(min(len(r), N) for r in ref), "total-length")
    return prog


def main(tier, seed):
    rep = E2Report(PROP, tier, seed)
    caps = [1, 2, 3] if tier == "quick" else [1, 2, 3, 4]
    extra = 2 if tier == "quick" else 3
    rep.r.bounds = {"capacities": caps, "adds": f"symbolic n in [0, N+{extra}] (covers exact wrap-around and overwrite)", "batch_sizes": [1, 2] if tier == "quick" else [1, 3],
                    "observation_dims": [1, 2], "classes": ["ReplayBuffer", "LAP", "PrioritizedReplayBuffer", "MultiTaskReplayBuffer(T=2,3; thorough also 4)"],
                    "multitask_ops": 4 if tier == "quick" else 5,
                    "interleaving": "plain buffers: add^n with an intermediate sample_batch (concrete draw, discarded) after one symbolic add position or after every add, then the checked sample",
                    "inductive_step": "one add_sample from an ARBITRARY state satisfying the representation invariant (symbolic cursor, length, contents): covers histories of any length for these capacities"}
    rep.r.assumptions = ["np.empty/asarray inside replay_buffer.py replaced by object-array allocators (poisoned slots); all other numpy semantics are numpy's own",
                         "jnp.asarray is the identity (device transfer not modelled)", "generator draws: arbitrary ints in [lo,hi) / reals in the open interval (0,1)",
                         "flags compared as 0/1 (documented storage dtype int); float64->float32 rounding outside the claim; writes into INTEGER storage truncate toward zero as numpy does (logical dtype of each allocation tracked by the shim)"]
    rep.r.stubs = ["np (allocation only)", "jnp.asarray", "np.random.Generator -> RngStub"]
    for cls in ("ReplayBuffer", "LAP", "PrioritizedReplayBuffer"):
        for N in caps:
            for B in rep.r.bounds["batch_sizes"]:
                od = 1 if (N + B) % 2 else 2
                rep.run(f"{cls}[N={N},B={B}]:fifo", fifo_program(cls, N, od, B, extra, probe=(tier == "quick" or (N <= 3 and B == 1))), fn=f"{cls}.add_sample/sample_batch/__len__")
        for N in caps:
            rep.run(f"ReplayBuffer-content[{cls},N={N}]", content_program(cls, N, 1, extra), fn=f"{cls}.add_sample + storage") if cls == "ReplayBuffer" else None
    for cls in ("ReplayBuffer", "LAP", "PrioritizedReplayBuffer"):
        # storage dtype = the declared one, whatever the Python / numpy type of the first transition's values
        rep.run(f"{cls}[N=2,B=1,first-transition-integer-typed]:fifo", fifo_program(cls, 2, 1, 1, 1, int_first=True), fn=f"{cls}.add_sample + storage dtype")
    for cls in ("ReplayBuffer", "LAP", "PrioritizedReplayBuffer"):
        for N in caps:
            rep.run(f"{cls}[N={N}]:inductive-step", inductive_program(cls, N), fn=f"{cls}.add_sample from an arbitrary invariant-satisfying state")
    rep.run("MultiTaskReplayBuffer[T=2,N=2]", multitask_program(2, 2, rep.r.bounds["multitask_ops"]), fn="MultiTaskReplayBuffer.select_task/add_sample/sample_batch")
    # more than two tasks (the per-task buffers must be independent objects whatever their number)
    rep.run("MultiTaskReplayBuffer[T=3,N=1]", multitask_program(3, 1, rep.r.bounds["multitask_ops"] - 1), fn="MultiTaskReplayBuffer.select_task/add_sample/sample_batch")
    if tier != "quick":
        rep.run("MultiTaskReplayBuffer[T=4,N=1]", multitask_program(4, 1, 3), fn="MultiTaskReplayBuffer.select_task/add_sample/sample_batch")
    return rep.finish()


def replay(path):
    import json
    print(json.dumps(json.load(open(path)), indent=1))
    return main("quick", 0)
