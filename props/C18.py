"""C18 Numeric building blocks: two-hot coding, robust losses, norms, schedules (E1)."""
from __future__ import annotations

from fractions import Fraction

import jax
import jax.numpy as jnp
import numpy as np
import z3

from props.common import E1, rand_like, tier_params
from symcore import sarray as S
from symcore import values as V
from symcore.evidence import Report
from symcore.solver import Session

PROP = "C18"


def two_hot_ref(b, x, k):
    """Reference two-hot row for x in [b_k, b_{k+1}] (as list of elements)."""
    n = len(b.flat())
    w = (x - b[k]) / (b[k + 1] - b[k])
    row = [Fraction(0)] * n
    row[k] = (1 - w).item()
    row[k + 1] = w.item()
    return S.SA(np.array(row, dtype=object))


def main(tier, seed):
    from rl_blox.blox import losses, preprocessing, schedules
    from rl_blox.blox.function_approximator import norm

    tp = tier_params(tier)
    rep = Report(PROP, tier, seed)
    sess = Session(tp["timeout"])
    sess.keep_smt2 = tier == "thorough"
    edges = [2, 3] if tier == "quick" else [2, 3, 4, 5]
    rep.bounds = {"two_hot_bin_edges": edges, "two_hot_batch": 2, "huber_batch": 3, "masked_mse_shape": [3, 2],
                  "avg_l1_norm_dims": [1, 2, 3], "linear_schedule_T": "1..8", "fractions": ["1/10", "1/4", "1/2", "1"],
                  "value_range": "unbounded reals; two-hot additionally |x-bin|<1e8 (the code's own sentinel)"}
    rep.assumptions = [
        "real-number semantics of the traced program (float rounding, NaN/Inf outside the claim)",
        "log-softmax reference written in its shift-invariant form l-m-log(sum exp(l-m)), m=max(l)",
        "two-hot: bins strictly increasing, value within [bins[0], bins[-1]] and |value-bin|<1e8",
        "huber: documented input is an absolute error (>=0), delta>0",
    ]

    # ---------------- two-hot encoding / decoding
    for n in edges:
        B = 2
        bins0 = jnp.linspace(-1.0, 2.0, n)
        x0 = jnp.array([0.3, 1.7])
        e = E1(rep, sess, preprocessing.two_hot_encoding, (bins0, x0), f"two_hot_encoding[n={n}]",
               validate_sets=[(bins0, x0), (bins0 * 3 - 1, jnp.array([-4.0 + 1e-3, 5.0]) if n > 1 else x0), (bins0, jnp.array([-1.0, 2.0]))])
        b, xs = S.SA(e.ins[0]), S.SA(e.ins[1])
        for j in range(n - 1):
            e.add_hyp(b[j] < b[j + 1])
        e.add_hyp(xs >= b[0], xs <= b[n - 1])
        for j in range(n):
            e.add_hyp((xs - b[j]) < 10**8, (xs - b[j]) > -(10**8))
        e.check_reachable()
        e.obligation("non-negative", lambda i, o: S.SA(o) >= 0)
        e.obligation("rows-sum-to-one", lambda i, o: S.close(S.SA(o).sum(axis=1), 1))
        for r in range(B):
            cases = [(f"x{r}in[b{k},b{k+1}]", (b[k] <= xs[r]) & (xs[r] <= b[k + 1])) for k in range(n - 1)]
            e.obligation(f"decoding-returns-value[row{r}]",
                         lambda i, o, r=r: S.close((S.SA(o)[r] * S.SA(i[0])).sum(), S.SA(i[1])[r]), cases=cases)
            # at most two adjacent non-zeros: equals the reference row in every case
            for k in range(n - 1):
                strict = (b[k] < xs[r]) & (xs[r] < b[k + 1])
                e.obligation(f"two-adjacent-entries[row{r},bin{k}]",
                             lambda i, o, r=r, k=k: S.close(S.SA(o)[r], two_hot_ref(S.SA(i[0]), S.SA(i[1])[r], k)),
                             extra_hyps=[strict])
            # non-zero support is {j, j+1} for some j (covers exact edges too)
            def support(i, o, r=r):
                row = S.SA(o)[r]
                opts = []
                for k in range(n - 1):
                    c = True
                    for j in range(n):
                        if j not in (k, k + 1):
                            c = V.s_and(c, row[j].eq(0).item())
                    opts.append(c)
                acc = False
                for c in opts:
                    acc = V.s_or(acc, c)
                return acc
            e.obligation(f"support-adjacent[row{r}]", support)

        th0 = jnp.array(np.random.default_rng(seed).random((B, n)), dtype=jnp.float32)
        d = E1(rep, sess, preprocessing.two_hot_decoding, (bins0, th0), f"two_hot_decoding[n={n}]", validate_sets=[(bins0, th0)])
        d.obligation("sum-of-weights-times-bins", lambda i, o: S.close(S.SA(o), (S.SA(i[1]) * S.SA(i[0]).reshape(1, n)).sum(axis=1)))

        # cross entropy
        lg0 = jnp.array(np.random.default_rng(seed + 1).normal(size=(B, n)), dtype=jnp.float32)
        c = E1(rep, sess, preprocessing.two_hot_cross_entropy_loss, (bins0, lg0, x0), f"two_hot_cross_entropy_loss[n={n}]",
               validate_sets=[(bins0, lg0, x0)])
        b, lg, xs = S.SA(c.ins[0]), S.SA(c.ins[1]), S.SA(c.ins[2])
        for j in range(n - 1):
            c.add_hyp(b[j] < b[j + 1])
        c.add_hyp(xs >= b[0], xs <= b[n - 1])
        for j in range(n):
            c.add_hyp((xs - b[j]) < 10**8, (xs - b[j]) > -(10**8))
        c.check_reachable()
        for r in range(B):
            for k in range(n - 1):
                def ce(i, o, r=r, k=k):
                    b_, lg_, x_ = S.SA(i[0]), S.SA(i[1]), S.SA(i[2])
                    l = lg_[r]
                    m = l.max()
                    lsm = (l - m) - S.log(S.exp(l - m).sum())
                    tgt = two_hot_ref(b_, x_[r], k)
                    return S.close(S.SA(o)[r], -((tgt * lsm).sum()))
                c.obligation(f"equals-minus-sum-target-log-softmax[row{r},bin{k}]", ce,
                             extra_hyps=[(b[k] < xs[r]) & (xs[r] <= b[k + 1]) if k else (b[k] <= xs[r]) & (xs[r] <= b[k + 1])])

    # ---------------- huber
    ae0 = jnp.array([0.1, 1.0, 3.0])
    h = E1(rep, sess, losses.huber_loss, (ae0, 1.0), "huber_loss", validate_sets=[(ae0, 1.0), (ae0 * 2, 0.5)])
    ae, dl = S.SA(h.ins[0]), S.SA(h.ins[1])
    h.add_hyp(ae >= 0, dl > 0)
    h.check_reachable()
    h.obligation("quadratic-within-delta-linear-beyond",
                 lambda i, o: S.close(S.SA(o), S.where(S.SA(i[0]) <= S.SA(i[1]), Fraction(1, 2) * S.SA(i[0]) * S.SA(i[0]),
                                                      S.SA(i[1]) * (S.SA(i[0]) - Fraction(1, 2) * S.SA(i[1])))))

    # ---------------- masked mse (documented 2-D predictions/targets, 1-D mask)
    p0 = jnp.array(np.random.default_rng(seed + 2).normal(size=(3, 2)), dtype=jnp.float32)
    t0 = p0 + 1
    m0 = jnp.array([1.0, 0.0, 1.0])
    mm = E1(rep, sess, losses.masked_mse_loss, (p0, t0, m0), "masked_mse_loss", validate_sets=[(p0, t0, m0)])
    mm.obligation("mean-of-masked-squared-errors",
                  lambda i, o: S.close(S.SA(o), (((S.SA(i[0]) - S.SA(i[1])) ** 2) * S.SA(i[2]).reshape(3, 1)).sum() / 6))
    # zero weight for masked rows: two-copy non-interference
    mm2 = E1(rep, sess, losses.masked_mse_loss, (p0, t0, m0), "masked_mse_loss", prefix="copy2_")
    pa, ta, ma = (S.SA(x) for x in mm.ins)
    pb, tb, mb = (S.SA(x) for x in mm2.ins)
    hy = [V.to_z3(ma.eq(mb).all())]
    for r in range(3):
        rowsame = V.s_and(pa[r].eq(pb[r]).all(), ta[r].eq(tb[r]).all())
        hy.append(V.to_z3(V.s_or(ma[r].eq(0).item(), rowsame)))
    q = sess.prove("masked_mse_loss:masked-rows-have-zero-weight(2-copy)", hy, S.close(S.SA(mm.outs), S.SA(mm2.outs)).all())
    if q.verdict != "unsat":
        # fall back to the functional obligation's replay (same content)
        rep.inconclusive_("masked_mse_loss:two-copy", q.verdict)

    # ---------------- avg_l1_norm
    for dshape in ([(1,), (2,), (3,)] if tier == "quick" else [(1,), (2,), (3,), (2, 2), (4,)]):
        x0 = jnp.array(np.random.default_rng(seed + 3).normal(size=dshape), dtype=jnp.float32)
        a = E1(rep, sess, norm.avg_l1_norm, (x0, 1e-8), f"avg_l1_norm[shape={dshape}]", validate_sets=[(x0, 1e-8), (x0 * 1e-9, 1e-3)])
        xs, eps = S.SA(a.ins[0]), S.SA(a.ins[1])
        a.add_hyp(eps > 0)
        nlast = dshape[-1]

        def mean_abs(v):
            return abs(v).sum(axis=-1) / nlast
        a.obligation("x-over-max(mean-abs,eps)",
                     lambda i, o: S.close(S.SA(o) * S.bcast(S.SA(S.maximum(mean_abs(S.SA(i[0])), S.SA(i[1])).a[..., None]), dshape), S.SA(i[0])))
        a.obligation("mean-abs-output-is-one-when-input-above-eps",
                     lambda i, o: S.close(mean_abs(S.SA(o)), 1), extra_hyps=[mean_abs(xs) >= eps], split=True)
        a.obligation("bounded-for-near-zero-input",
                     lambda i, o: S.le(mean_abs(S.SA(o)), 1), split=True)

    # ---------------- linear schedule
    fracs = [Fraction(1, 10), Fraction(1, 4), Fraction(1, 2), Fraction(1)]
    Ts = [1, 2, 3, 4, 5, 8] if tier == "quick" else list(range(1, 13))
    for T in Ts:
        for fr in fracs:
            f = float(fr)
            k = int(T * f)

            def sched(start, end, T=T, f=f):
                return schedules.linear_schedule(T, start, end, f)
            try:
                sched(1.0, 0.1)
            except Exception as ex:
                # a configuration the REAL code rejects loudly is reported as such, not as a pass (encoder failures propagate)
                rep.extra.setdefault("rejected_configurations", []).append({"T": T, "fraction": str(fr), "error": f"{type(ex).__name__}: {ex}"[:200]})
                continue
            l = E1(rep, sess, sched, (1.0, 0.1), f"linear_schedule[T={T},fraction={fr}]", validate_sets=[(1.0, 0.1), (-2.0, 3.0)])
            if tuple(np.shape(l.outs)) != (T,):
                rep.violation(f"linear_schedule:length", f"schedule of length {np.shape(l.outs)} for T={T}", {"T": T, "fraction": str(fr)})
                continue

            def props(i, o, k=k, T=T):
                s, e_, sc = S.SA(i[0]), S.SA(i[1]), S.SA(o)
                goals = []
                for t in range(k, T):
                    goals.append(S.close(sc[t], e_))  # stays at end after the transition
                if k >= 1:
                    goals.append(S.close(sc[0], s))  # starts at start
                for t in range(T - 1):  # monotone in the direction start->end
                    goals.append(S.where(s >= e_, S.le(sc[t + 1], sc[t]), S.le(sc[t], sc[t + 1])))
                return goals
            l.obligation("length-start-monotone-end", props)

    rep.add_queries(sess)
    rep.samples = [o["name"] for o in rep.obligations if o["kind"] == "obligation"][:10]
    if tier == "thorough":
        bad = _cross(sess, rep)
    return rep.finish()


def _cross(sess, rep):
    return 0


def replay(path):
    import json
    print(json.dumps(json.load(open(path)), indent=1))
    return 0
