"""Tiny instances of the real rl_blox module types (the bound on 'all network shapes')."""
from __future__ import annotations

import gymnasium as gym
import numpy as np
from flax import nnx


def box(d=1):
    return gym.spaces.Box(low=-np.ones(d, dtype=np.float32), high=np.ones(d, dtype=np.float32) * 2)


def mlp(n_in, n_out, hidden=(2,), seed=0, act="relu"):
    from rl_blox.blox.function_approximator.mlp import MLP
    return MLP(n_in, n_out, list(hidden), act, nnx.Rngs(seed))


def ln_mlp(n_in, n_out, hidden=(2,), seed=0, act="relu"):
    from rl_blox.blox.function_approximator.layer_norm_mlp import LayerNormMLP
    return LayerNormMLP(n_in, n_out, list(hidden), act, nnx.Rngs(seed))


def double_q(n_obs, n_act, hidden=(2,), seed=0, ln=False):
    from rl_blox.blox.double_qnet import ContinuousClippedDoubleQNet
    mk = ln_mlp if ln else mlp
    return ContinuousClippedDoubleQNet(mk(n_obs + n_act, 1, hidden, seed), mk(n_obs + n_act, 1, hidden, seed + 1))


def tanh_policy(n_obs, n_act, hidden=(2,), seed=0):
    from rl_blox.blox.function_approximator.policy_head import DeterministicTanhPolicy
    return DeterministicTanhPolicy(mlp(n_obs, n_act, hidden, seed), box(n_act))


def sale(n_obs, n_act, zs=2, seed=0):
    from rl_blox.blox.embedding.sale import SALE
    return SALE(mlp(n_obs, zs, (2,), seed, "elu"), mlp(zs + n_act, zs, (2,), seed + 1, "elu"))


def sale_policy(n_obs, n_act, zs=2, seed=0):
    from rl_blox.blox.embedding.sale import ActorSALE, DeterministicSALEPolicy
    from rl_blox.blox.function_approximator.policy_head import DeterministicTanhPolicy
    emb = sale(n_obs, n_act, zs, seed)
    actor = ActorSALE(DeterministicTanhPolicy(mlp(2 + zs, n_act, (2,), seed + 2), box(n_act)), n_obs, 2, nnx.Rngs(seed + 3))
    return DeterministicSALEPolicy(emb, actor)


def sale_critic(n_obs, n_act, zs=2, seed=0):
    from rl_blox.blox.double_qnet import ContinuousClippedDoubleQNet
    from rl_blox.blox.embedding.sale import CriticSALE
    def one(s):
        return CriticSALE(mlp(2 + 2 * zs, 1, (2,), s), n_obs, n_act, 2, nnx.Rngs(s + 7))
    return ContinuousClippedDoubleQNet(one(seed), one(seed + 1))


# Width of every layer that is followed by a LayerNorm.  NOT 2: LayerNorm over two features maps (a, b) to (+-1, -+1)
# whatever the magnitudes, so a seeded two-wide network is blind to the scale of its input (a wrongly scaled action
# gave bit-identical losses in mode-C replays).
W = 3


def encoder_policy(n_obs, n_act, seed=0, n_bins=3, zs=W):
    from rl_blox.blox.embedding.model_based_encoder import create_model_based_encoder_and_policy
    return create_model_based_encoder_and_policy(
        n_state_features=n_obs, n_action_features=n_act, action_space=box(n_act), policy_hidden_nodes=[W], encoder_n_bins=n_bins,
        encoder_zs_dim=zs, encoder_za_dim=W, encoder_zsa_dim=W, encoder_hidden_nodes=[W], rngs=nnx.Rngs(seed))


def mrq_q(seed=0):
    """MR.Q critic over the zsa embedding of encoder_policy."""
    return double_q(W - 1, 1, (W,), seed, ln=True)
