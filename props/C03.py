"""C03 Critic and representation losses implement their documented targets per sample (F-LOSS, E1)."""
from __future__ import annotations

from fractions import Fraction

import jax
import jax.numpy as jnp
import numpy as np
import z3
from flax import nnx

from props import zoo
from props.common import E1, tier_params
from props.lossframe import LossCase, run_case
from symcore import sarray as S
from symcore import values as V
from symcore.evidence import Report
from symcore.solver import Session

PROP = "C03"
D, A, N_ACT = 2, 1, 3


def f32(x):
    return jnp.asarray(x, dtype=jnp.float32)


def sel(q, a):
    """q[i, a_i] with symbolic in-range a (oracle side)."""
    q, a = S.SA(q), S.SA(a)
    B, n = q.shape
    out = []
    for i in range(B):
        acc = q[i, n - 1]
        for j in range(n - 2, -1, -1):
            acc = S.where(a[i].eq(j), q[i, j], acc)
        out.append(acc)
    return S.stack(out)


def sel_argmax(qsel, qval):
    """qval[i, argmax_j qsel[i, j]] (first maximiser)."""
    qsel, qval = S.SA(qsel), S.SA(qval)
    B, n = qsel.shape
    out = []
    for i in range(B):
        bv, bq = qsel[i, 0], qval[i, 0]
        for j in range(1, n):
            c = qsel[i, j] > bv
            bq = S.where(c, qval[i, j], bq)
            bv = S.where(c, qsel[i, j], bv)
        out.append(bq)
    return S.stack(out)


def flags(t):
    t = S.SA(t)
    return t.eq(0) | t.eq(1)


def unit(g):
    g = S.SA(g)
    return [g >= 0, g <= 1]


def batch_data(B, rng, discrete):
    obs = f32(rng.normal(size=(B, D)))
    nobs = f32(rng.normal(size=(B, D)))
    r = f32(rng.normal(size=(B,)))
    term = f32((rng.random(B) < 0.5).astype(np.float32))
    if discrete:
        act = jnp.asarray(rng.integers(0, N_ACT, size=(B,)), dtype=jnp.int32)
    else:
        act = f32(rng.normal(size=(B, A)))
    return obs, act, r, nobs, term


# ------------------------------------------------------------------------------- discrete
class DiscreteBase(LossCase):
    concrete_in_C = (0, 3)
    batch_args = (0, 1, 2, 3, 4)
    term_index = 4

    def data(self, B, rng):
        return batch_data(B, rng, True) + (0.9,)

    def hyps(self, d):
        obs, act, r, nobs, term, g = d[:6]
        return [S.SA(act) >= 0, S.SA(act) < N_ACT, flags(term)] + unit(g)

    def scalar_out(self, out):
        return [out[0], out[1]]

    def cases(self, d):
        import itertools
        act = S.SA(d[1])
        B = act.shape[0]
        out = []
        for combo in itertools.product(range(N_ACT), repeat=B):
            c = True
            for i, a in enumerate(combo):
                c = V.s_and(c, act[i].eq(a).item())
            out.append(("a=" + "".join(map(str, combo)), c))
        return out


class DQN(DiscreteBase):
    site = "dqn_loss"
    bootstrap = ("q_next",)

    def build(self, seed):
        return (zoo.mlp(D, N_ACT, (2,), seed),)

    def fn(self, gdef):
        from rl_blox.blox import losses

        def f(state, obs, act, r, nobs, term, g):
            (q,) = nnx.merge(gdef, state)
            return losses.dqn_loss(q, (obs, act, r, nobs, term), g), {"q_obs": q(obs), "q_next": q(nobs)}
        return f

    def spec(self, d, ex):
        obs, act, r, nobs, term, g = d
        y = S.SA(r) + (1 - S.SA(term)) * S.SA(g) * ex["q_next"].max(axis=1)
        pred = sel(ex["q_obs"], act)
        return (((pred - y) ** 2).mean(), pred.mean())

    def grad(self, gdef):
        from rl_blox.blox import losses

        def g_(state, obs, act, r, nobs, term, g):
            (q,) = nnx.merge(gdef, state)
            return nnx.grad(lambda q_, no_: losses.dqn_loss(q_, (obs, act, r, no_, term), g)[0], argnums=1)(q, nobs)
        return g_


class NatureDQN(DiscreteBase):
    site = "nature_dqn_loss"
    bootstrap = ("qt_next",)

    def build(self, seed):
        return (zoo.mlp(D, N_ACT, (2,), seed), zoo.mlp(D, N_ACT, (2,), seed + 5))

    def fn(self, gdef):
        from rl_blox.blox import losses

        def f(state, obs, act, r, nobs, term, g):
            q, qt = nnx.merge(gdef, state)
            return losses.nature_dqn_loss(q, qt, (obs, act, r, nobs, term), g), {"q_obs": q(obs), "qt_next": qt(nobs)}
        return f

    def spec(self, d, ex):
        obs, act, r, nobs, term, g = d
        y = S.SA(r) + (1 - S.SA(term)) * S.SA(g) * ex["qt_next"].max(axis=1)
        pred = sel(ex["q_obs"], act)
        return (((pred - y) ** 2).mean(), pred.mean())

    def grad(self, gdef):
        from rl_blox.blox import losses

        def g_(state, obs, act, r, nobs, term, g):
            q, qt = nnx.merge(gdef, state)
            return nnx.grad(lambda q_, qt_, no_: losses.nature_dqn_loss(q_, qt_, (obs, act, r, no_, term), g)[0], argnums=(1, 2))(q, qt, nobs)
        return g_


class DDQN(DiscreteBase):
    site = "ddqn_loss"
    bootstrap = ("qt_next", "q_next")

    def build(self, seed):
        return (zoo.mlp(D, N_ACT, (2,), seed), zoo.mlp(D, N_ACT, (2,), seed + 5))

    def fn(self, gdef):
        from rl_blox.blox import losses

        def f(state, obs, act, r, nobs, term, g):
            q, qt = nnx.merge(gdef, state)
            return losses.ddqn_loss(q, qt, (obs, act, r, nobs, term), g), {"q_obs": q(obs), "q_next": q(nobs), "qt_next": qt(nobs)}
        return f

    def spec(self, d, ex):
        obs, act, r, nobs, term, g = d
        y = S.SA(r) + (1 - S.SA(term)) * S.SA(g) * sel_argmax(ex["q_next"], ex["qt_next"])
        pred = sel(ex["q_obs"], act)
        return (((pred - y) ** 2).mean(), pred.mean())

    def grad(self, gdef):
        from rl_blox.blox import losses

        def g_(state, obs, act, r, nobs, term, g):
            q, qt = nnx.merge(gdef, state)
            return nnx.grad(lambda q_, qt_, no_: losses.ddqn_loss(q_, qt_, (obs, act, r, no_, term), g)[0], argnums=(1, 2))(q, qt, nobs)
        return g_


class DDQNPER(DiscreteBase):
    site = "ddqn_per_loss"

    def out_names(self):
        return ["loss", "q_mean", "td_error_mean"]

    bootstrap = ("qt_next", "q_next")
    batch_args = (0, 1, 2, 3, 4, 6)

    def build(self, seed):
        return (zoo.mlp(D, N_ACT, (2,), seed), zoo.mlp(D, N_ACT, (2,), seed + 5))

    def data(self, B, rng):
        return batch_data(B, rng, True) + (0.9, f32(rng.random(B) + 0.1))

    def fn(self, gdef):
        from rl_blox.blox import losses

        def f(state, obs, act, r, nobs, term, g, w):
            q, qt = nnx.merge(gdef, state)
            return losses.ddqn_per_loss(q, qt, (obs, act, r, nobs, term), g, w), {"q_obs": q(obs), "q_next": q(nobs), "qt_next": qt(nobs)}
        return f

    def spec(self, d, ex):
        obs, act, r, nobs, term, g, w = d
        y = S.SA(r) + (1 - S.SA(term)) * S.SA(g) * sel_argmax(ex["q_next"], ex["qt_next"])
        pred = sel(ex["q_obs"], act)
        td = abs(pred - y)
        return ((S.SA(w) * td * td).mean(), (pred.mean(), td.mean()))

    def scalar_out(self, out):
        return [out[0], out[1][0], out[1][1]]

    def grad(self, gdef):
        from rl_blox.blox import losses

        def g_(state, obs, act, r, nobs, term, g, w):
            q, qt = nnx.merge(gdef, state)
            return nnx.grad(lambda q_, qt_, no_: losses.ddqn_per_loss(q_, qt_, (obs, act, r, no_, term), g, w)[0], argnums=(1, 2))(q, qt, nobs)
        return g_


# ------------------------------------------------------------------------------- continuous
class ContBase(LossCase):
    concrete_in_C = (0, 1, 3)
    batch_args = (0, 1, 2, 3, 4)
    term_index = 4

    def hyps(self, d):
        return [flags(d[4])] + unit(d[5])

    def scalar_out(self, out):
        return [out[0], out[1]]


class DDPG(ContBase):
    site = "ddpg_loss"
    bootstrap = ("qt_next",)

    def build(self, seed):
        return (zoo.mlp(D + A, 1, (2,), seed), zoo.mlp(D + A, 1, (2,), seed + 5), zoo.tanh_policy(D, A, (2,), seed + 9))

    def data(self, B, rng):
        return batch_data(B, rng, False) + (0.9,)

    def fn(self, gdef):
        from rl_blox.blox import losses

        def f(state, obs, act, r, nobs, term, g):
            q, qt, pt = nnx.merge(gdef, state)
            na = pt(nobs)
            return losses.ddpg_loss(q, qt, pt, (obs, act, r, nobs, term), g), {
                "q_pred": q(jnp.concatenate((obs, act), axis=-1)).squeeze(-1), "qt_next": qt(jnp.concatenate((nobs, na), axis=-1)).squeeze(-1)}
        return f

    def spec(self, d, ex):
        obs, act, r, nobs, term, g = d
        y = S.SA(r) + (1 - S.SA(term)) * S.SA(g) * ex["qt_next"]
        return (((ex["q_pred"] - y) ** 2).mean(), ex["q_pred"].mean())

    def grad(self, gdef):
        from rl_blox.blox import losses

        def g_(state, obs, act, r, nobs, term, g):
            q, qt, pt = nnx.merge(gdef, state)
            return nnx.grad(lambda q_, qt_, pt_, no_: losses.ddpg_loss(q_, qt_, pt_, (obs, act, r, no_, term), g)[0], argnums=(1, 2, 3))(q, qt, pt, nobs)
        return g_


class TD3(ContBase):
    site = "td3_loss"
    bootstrap = ("qt1_next", "qt2_next")
    batch_args = (0, 1, 2, 3, 4, 6)

    concrete_in_C = (0, 1, 3, 6)  # the next action passes through the target network

    def build(self, seed):
        return (zoo.double_q(D, A, (2,), seed), zoo.double_q(D, A, (2,), seed + 5))

    def data(self, B, rng):
        return batch_data(B, rng, False) + (0.9, f32(rng.normal(size=(B, A))))

    def fn(self, gdef):
        from rl_blox.blox import losses

        def f(state, obs, act, r, nobs, term, g, na):
            q, qt = nnx.merge(gdef, state)
            oa, noa = jnp.concatenate((obs, act), axis=-1), jnp.concatenate((nobs, na), axis=-1)
            return losses.td3_loss(q, qt, na, (obs, act, r, nobs, term), g), {
                "q1": q.q1(oa).squeeze(-1), "q2": q.q2(oa).squeeze(-1), "qt1_next": qt.q1(noa).squeeze(-1), "qt2_next": qt.q2(noa).squeeze(-1)}
        return f

    def spec(self, d, ex):
        obs, act, r, nobs, term, g, na = d
        y = S.SA(r) + (1 - S.SA(term)) * S.SA(g) * S.minimum(ex["qt1_next"], ex["qt2_next"])
        return (((ex["q1"] - y) ** 2).mean() + ((ex["q2"] - y) ** 2).mean(), S.minimum(ex["q1"], ex["q2"]).mean())

    def grad(self, gdef):
        from rl_blox.blox import losses

        def g_(state, obs, act, r, nobs, term, g, na):
            q, qt = nnx.merge(gdef, state)
            return nnx.grad(lambda q_, qt_, no_, na_: losses.td3_loss(q_, qt_, na_, (obs, act, r, no_, term), g)[0], argnums=(1, 2, 3))(q, qt, nobs, na)
        return g_


class TD3LAP(TD3):
    site = "td3_lap_loss"

    def out_names(self):
        return ["loss", "q_mean", "max_abs_td_error"]

    batch_args = (0, 1, 2, 3, 4, 6)

    def data(self, B, rng):
        return batch_data(B, rng, False) + (0.9, f32(rng.normal(size=(B, A))), 1.0)

    def hyps(self, d):
        return [flags(d[4])] + unit(d[5]) + [S.SA(d[7]) > 0]

    def fn(self, gdef):
        from rl_blox.blox import losses

        def f(state, obs, act, r, nobs, term, g, na, mp):
            q, qt = nnx.merge(gdef, state)
            oa, noa = jnp.concatenate((obs, act), axis=-1), jnp.concatenate((nobs, na), axis=-1)
            return losses.td3_lap_loss(q, qt, na, (obs, act, r, nobs, term), g, mp), {
                "q1": q.q1(oa).squeeze(-1), "q2": q.q2(oa).squeeze(-1), "qt1_next": qt.q1(noa).squeeze(-1), "qt2_next": qt.q2(noa).squeeze(-1)}
        return f

    def spec(self, d, ex):
        obs, act, r, nobs, term, g, na, mp = d
        mp = S.SA(mp)
        y = S.SA(r) + (1 - S.SA(term)) * S.SA(g) * S.minimum(ex["qt1_next"], ex["qt2_next"])
        e1, e2 = abs(ex["q1"] - y), abs(ex["q2"] - y)

        def huber(e):
            return S.where(e <= mp, Fraction(1, 2) * e * e, mp * (e - Fraction(1, 2) * mp))
        return (huber(e1).mean() + huber(e2).mean(), (S.minimum(ex["q1"], ex["q2"]).mean(), S.maximum(e1, e2)))

    def scalar_out(self, out):
        return [out[0], out[1][0]]

    def per_sample_out(self, out):
        return [out[1][1]]

    def grad(self, gdef):
        from rl_blox.blox import losses

        def g_(state, obs, act, r, nobs, term, g, na, mp):
            q, qt = nnx.merge(gdef, state)
            return nnx.grad(lambda q_, qt_, no_, na_: losses.td3_lap_loss(q_, qt_, na_, (obs, act, r, no_, term), g, mp)[0], argnums=(1, 2, 3))(q, qt, nobs, na)
        return g_


class SAC(ContBase):
    site = "sac_loss"
    bootstrap = ("qt1_next", "qt2_next", "logp_next")

    def build(self, seed):
        from rl_blox.blox.function_approximator.gaussian_mlp import GaussianMLP
        from rl_blox.blox.function_approximator.policy_head import GaussianTanhPolicy
        pol = GaussianTanhPolicy(GaussianMLP(True, D, A, [2], "relu", nnx.Rngs(seed + 3)), zoo.box(A))
        return (zoo.double_q(D, A, (2,), seed), zoo.double_q(D, A, (2,), seed + 5), pol)

    def data(self, B, rng):
        return batch_data(B, rng, False) + (0.9, 0.2, jax.random.key(int(rng.integers(0, 1000))))

    def hyps(self, d):
        return [flags(d[4])] + unit(d[5])

    def fn(self, gdef):
        from rl_blox.blox import losses

        def f(state, obs, act, r, nobs, term, g, alpha, key):
            q, qt, pol = nnx.merge(gdef, state)
            na = pol.sample(nobs, key)
            oa, noa = jnp.concatenate((obs, act), axis=-1), jnp.concatenate((nobs, na), axis=-1)
            return losses.sac_loss(q, qt, pol, key, alpha, (obs, act, r, nobs, term), g), {
                "q1": q.q1(oa).squeeze(-1), "q2": q.q2(oa).squeeze(-1), "qt1_next": qt.q1(noa).squeeze(-1), "qt2_next": qt.q2(noa).squeeze(-1),
                "logp_next": pol.log_probability(nobs, na)}
        return f

    def spec(self, d, ex):
        obs, act, r, nobs, term, g, alpha, key = d
        boot = S.minimum(ex["qt1_next"], ex["qt2_next"]) - S.SA(alpha) * ex["logp_next"]
        y = S.SA(r) + (1 - S.SA(term)) * S.SA(g) * boot
        return (((ex["q1"] - y) ** 2).mean() + ((ex["q2"] - y) ** 2).mean(), S.minimum(ex["q1"], ex["q2"]).mean())

    def grad(self, gdef):
        from rl_blox.blox import losses

        def g_(state, obs, act, r, nobs, term, g, alpha, key):
            q, qt, pol = nnx.merge(gdef, state)
            return nnx.grad(lambda q_, qt_, pol_, no_: losses.sac_loss(q_, qt_, pol_, key, alpha, (obs, act, r, no_, term), g)[0], argnums=(1, 2, 3))(q, qt, pol, nobs)
        return g_


CASES = [DQN, NatureDQN, DDQN, DDQNPER, DDPG, TD3, TD3LAP, SAC]


def main(tier, seed):
    tp = tier_params(tier)
    rep = Report(PROP, tier, seed)
    sess = Session(tp["timeout"])
    sess.keep_smt2 = tier == "thorough"
    rep.bounds = {"batch": [1, 2, 3], "obs_dim": D, "action_dim": A, "discrete_actions": N_ACT, "hidden": [2],
                  "mode_P": "all network parameters, observations and actions (forward outputs generalised to fresh reals)",
                  "mode_C": "seeded concrete networks/observations, symbolic rewards/flags/gamma/alpha (only to produce counterexamples)"}
    rep.assumptions = ["real-number semantics (float rounding outside the claim)", "termination flags in {0,1}, gamma in [0,1]",
                       "mode P: every exported forward-pass output is replaced by an unconstrained real (sound for unsat)",
                       "PRNG draws are key-determined arbitrary reals"]
    for C in CASES:
        c = C()
        c.B_list = (2,) if C in (SAC, TD3LAP, DDQNPER) else (2, 3)  # thorough differs by more mode-C seeds, larger timeouts and the cvc5 cross-check
        run_case(rep, sess, c, tier, seed)
    _extra_cases(rep, sess, tier, seed)
    if tier == "thorough":
        bad = sess.cross_check()
        rep.extra["cvc5_disagreements"] = bad
        if bad:
            rep.inconclusive_("cross-check", f"{bad} z3/cvc5 disagreements")
    rep.add_queries(sess)
    rep.samples = [o["name"] for o in rep.obligations if o["kind"].startswith("obligation")][:12]
    return rep.finish()


def _sale_target_gradient(rep, sess, tier, seed):
    """The SALE representation target z^{s'} is gradient-stopped: the gradient of the loss w.r.t. the embedding's
    parameters equals the gradient of mean((z^{sa} - const(z^{s'}))^2).  The loss VALUE cannot show a misplaced
    stop_gradient; the gradient w.r.t. the next observation (zero in both cases) cannot either."""
    from rl_blox.blox.embedding import sale
    B = 2
    for mode in ("all-parameters", "seeded-parameters-and-observations"):
        emb = zoo.sale(D, A, 2, seed + (0 if mode == "all-parameters" else 1))
        gdef, st = nnx.split(emb)
        rng = np.random.default_rng(seed)
        obs, act, _, nobs, _ = batch_data(B, rng, False)

        def f(state, obs, act, nobs, gdef=gdef):
            e_ = nnx.merge(gdef, state)
            g_real = nnx.grad(lambda m: sale.state_action_embedding_loss(m, obs, act, nobs))(e_)
            g_ref = nnx.grad(lambda m: jnp.mean((m(obs, act)[0] - jax.lax.stop_gradient(m.state_embedding(nobs))) ** 2))(e_)
            return jax.tree_util.tree_leaves(g_real), jax.tree_util.tree_leaves(g_ref)
        ex = (st, obs, act, nobs)
        kw = {} if mode == "all-parameters" else dict(overrides=lambda ins, ex=ex: ex, numeric_consts=True)
        e = E1(rep, sess, f, ex, f"state_action_embedding_loss:parameter-gradient[{mode}]", validate_sets=[ex] if mode == "all-parameters" else None, soft=True, **kw)
        r = e.obligation("gradient-wrt-embedding-parameters=gradient-with-the-target-held-constant",
                         lambda i, o: [S.close(S.SA(a), S.SA(b)) for a, b in zip(o[0], o[1])],
                         site="state_action_embedding_loss:target-embedding-is-gradient-stopped", timeout_s=20)
        if r is True or r is False:
            rep.extra.setdefault("sale_gradient_settled_at", mode)
            return
    for site_, why in e.pending:
        rep.inconclusive_(site_, why)


def _extra_cases(rep, sess, tier, seed):
    _sale_target_gradient(rep, sess, tier, seed)
    pass


def replay(path):
    import json
    print(json.dumps(json.load(open(path)), indent=1))
    return main("quick", 0)


# ------------------------------------------------------------------------------- TD7 / MR.Q / representation losses
def huber(e, delta):
    e = abs(e)
    return S.where(e <= delta, Fraction(1, 2) * e * e, delta * (e - Fraction(1, 2) * delta))


class TD7Critic(ContBase):
    site = "td7_update_critic"

    def out_names(self):
        return ["loss", "max_abs_td_error", "q_target"]

    bootstrap = ("qt1_next", "qt2_next")
    batch_args = (0, 1, 2, 3, 4, 6)
    concrete_in_C = (0, 1, 3, 6)  # the next action passes through the networks too
    b1 = False

    def build(self, seed):
        import optax
        critic = zoo.sale_critic(D, A, 2, seed)
        opt = nnx.Optimizer(critic, optax.sgd(1e-2), wrt=nnx.Param)
        return (zoo.sale(D, A, 2, seed + 20), zoo.sale(D, A, 2, seed + 30), critic, zoo.sale_critic(D, A, 2, seed + 40), opt)

    def data(self, B, rng):
        return batch_data(B, rng, False) + (0.9, f32(rng.normal(size=(B, A))), 1.0, -2.0, 3.0)

    def hyps(self, d):
        return [flags(d[4])] + unit(d[5]) + [S.SA(d[7]) > 0, S.SA(d[8]) <= S.SA(d[9])]

    def fn(self, gdef):
        from rl_blox.algorithm import td7
        body = getattr(td7.td7_update_critic, "__wrapped__")

        def f(state, obs, act, r, nobs, term, g, na, mp, qmin, qmax):
            fe, fet, critic, ct, opt = nnx.merge(gdef, state)
            zsa, zs = fe(obs, act)
            nzsa, nzs = fet(nobs, na)
            oa, noa = jnp.concatenate((obs, act), axis=-1), jnp.concatenate((nobs, na), axis=-1)
            ex = {"q1": critic.q1(oa, zsa=zsa, zs=zs).squeeze(-1), "q2": critic.q2(oa, zsa=zsa, zs=zs).squeeze(-1),
                  "qt1_next": ct.q1(noa, zsa=nzsa, zs=nzs).squeeze(-1), "qt2_next": ct.q2(noa, zsa=nzsa, zs=nzs).squeeze(-1)}
            out = body(fe, fet, critic, ct, opt, g, obs, act, nobs, na, r, term, mp, qmin, qmax)
            return tuple(out), ex
        return f

    def spec(self, d, ex):
        obs, act, r, nobs, term, g, na, mp, qmin, qmax = d
        boot = S.clip(S.minimum(ex["qt1_next"], ex["qt2_next"]), S.SA(qmin), S.SA(qmax))
        y = S.SA(r) + (1 - S.SA(term)) * S.SA(g) * boot
        loss = huber(ex["q1"] - y, S.SA(mp)).mean() + huber(ex["q2"] - y, S.SA(mp)).mean()
        return (loss, S.maximum(abs(ex["q1"] - y), abs(ex["q2"] - y)), y)

    def scalar_out(self, out):
        return [out[0]]

    def per_sample_out(self, out):
        return [out[1], out[2]]


H_MRQ = 2


class MRQ(LossCase):
    site = "mrq_loss"

    def out_names(self):
        return ["loss", "zs", "q_mean", "max_abs_td_error"]

    bootstrap = ("qt1_next", "qt2_next")
    concrete_in_C = (0, 1, 3, 6)
    batch_args = (0, 1, 2, 3, 4, 6)
    term_index = 4
    b1 = False

    def build(self, seed):
        enc = zoo.encoder_policy(D, A, seed).encoder
        enc_t = zoo.encoder_policy(D, A, seed + 11).encoder
        return (zoo.mrq_q(seed), zoo.mrq_q(seed + 5), enc, enc_t)

    def data(self, B, rng):
        obs, act, _, nobs, _ = batch_data(B, rng, False)
        r = f32(rng.normal(size=(B, H_MRQ)))
        term = f32((rng.random((B, H_MRQ)) < 0.3).astype(np.float32))
        return (obs, act, r, nobs, term, 0.9, f32(rng.normal(size=(B, A))), 2.0, 3.0)

    def hyps(self, d):
        return [flags(d[4])] + unit(d[5]) + [S.SA(d[7]) > 0]

    def fn(self, gdef):
        from rl_blox.algorithm import mrq

        def f(state, obs, act, r, nobs, term, g, na, rs, trs):
            q, qt, enc, enct = nnx.merge(gdef, state)
            zs = enc.encode_zs(obs)
            zsa = enc.encode_zsa(zs, act)
            nzsa = enct.encode_zsa(enct.encode_zs(nobs), na)
            ex = {"q1": q.q1(zsa).squeeze(-1), "q2": q.q2(zsa).squeeze(-1), "qt1_next": qt.q1(nzsa).squeeze(-1), "qt2_next": qt.q2(nzsa).squeeze(-1), "zs": zs}
            loss, (zs_o, q_mean, td) = mrq.mrq_loss(q, qt, enc, enct, na, (obs, act, r, nobs, term, None), g, rs, trs)
            return (loss, zs_o, q_mean, td), ex
        return f

    def spec(self, d, ex):
        obs, act, r, nobs, term, g, na, rs, trs = d
        r, term, g = S.SA(r), S.SA(term), S.SA(g)
        B, H = r.shape
        rets, discs = [], []
        for b in range(B):
            ret, dsc = S.SA(Fraction(0)), S.SA(Fraction(1))
            for t in range(H):
                ret = ret + dsc * r[b, t]
                dsc = dsc * g * (1 - term[b, t])
            rets.append(ret)
            discs.append(dsc)
        R, Dsc = S.stack(rets), S.stack(discs)
        y = (R + Dsc * S.minimum(ex["qt1_next"], ex["qt2_next"]) * S.SA(trs)) / S.SA(rs)
        e1, e2 = abs(ex["q1"] - y), abs(ex["q2"] - y)
        loss = huber(e1, 1).mean() + huber(e2, 1).mean()
        return (loss, ex["zs"], S.minimum(ex["q1"], ex["q2"]).mean(), S.maximum(e1, e2))

    def scalar_out(self, out):
        return [out[0], out[2]]

    def per_sample_out(self, out):
        return [out[3]]

    def grad(self, gdef):
        from rl_blox.algorithm import mrq

        def g_(state, obs, act, r, nobs, term, g, na, rs, trs):
            q, qt, enc, enct = nnx.merge(gdef, state)
            return nnx.grad(lambda q_, qt_, enc_, enct_, no_, na_: mrq.mrq_loss(q_, qt_, enc_, enct_, na_, (obs, act, r, no_, term, None), g, rs, trs)[0],
                            argnums=(1, 2, 3, 4, 5))(q, qt, enc, enct, nobs, na)
        return g_


class SALEEmbedding(LossCase):
    site = "state_action_embedding_loss"

    def out_names(self):
        return ["loss"]

    concrete_in_C = (0, 1, 2)
    batch_args = (0, 1, 2)
    b1 = True

    def build(self, seed):
        return (zoo.sale(D, A, 2, seed),)

    def data(self, B, rng):
        obs, act, _, nobs, _ = batch_data(B, rng, False)
        return (obs, act, nobs)

    def hyps(self, d):
        return []

    def fn(self, gdef):
        from rl_blox.blox.embedding import sale

        def f(state, obs, act, nobs):
            (emb,) = nnx.merge(gdef, state)
            return (sale.state_action_embedding_loss(emb, obs, act, nobs),), {"zsa": emb(obs, act)[0], "zs_next": emb.state_embedding(nobs)}
        return f

    def spec(self, d, ex):
        return (((ex["zsa"] - ex["zs_next"]) ** 2).mean(),)

    def scalar_out(self, out):
        return [out[0]]

    def grad(self, gdef):
        from rl_blox.blox.embedding import sale

        def g_(state, obs, act, nobs):
            (emb,) = nnx.merge(gdef, state)
            return nnx.grad(lambda e_, no_: sale.state_action_embedding_loss(e_, obs, act, no_), argnums=1)(emb, nobs)
        return g_


H_ENC = 3
N_BINS = 3
ZS = zoo.W


class EncoderLoss(LossCase):
    site = "model_based_encoder_loss"

    def out_names(self):
        return ["total_loss", "dynamics_loss", "reward_loss", "done_loss", "reward_mse"]

    concrete_in_C = (0, 1, 3)
    batch_args = (0, 1, 2, 3, 4)
    term_index = 4
    bootstrap = ()
    b1 = False
    normalize = True

    def build(self, seed):
        return (zoo.encoder_policy(D, A, seed, n_bins=N_BINS, zs=ZS).encoder, zoo.encoder_policy(D, A, seed + 11, n_bins=N_BINS, zs=ZS).encoder)

    def data(self, B, rng):
        obs = f32(rng.normal(size=(B, H_ENC, D)))
        act = f32(rng.normal(size=(B, H_ENC, A)))
        r = f32(rng.uniform(-0.9, 0.9, size=(B, H_ENC)))
        nobs = f32(rng.normal(size=(B, H_ENC, D)))
        term = f32((rng.random((B, H_ENC)) < 0.4).astype(np.float32))
        return (obs, act, r, nobs, term, 1.0, 0.1, 0.1)

    def hyps(self, d):
        r = S.SA(d[2])
        return [flags(d[4]), r >= -1, r <= 1]

    def _batch(self, obs, act, r, nobs, term):
        from collections import namedtuple
        return namedtuple("Batch", ["observation", "action", "reward", "next_observation", "terminated"])(obs, act, r, nobs, term)

    def fn(self, gdef):
        from rl_blox.blox.embedding import model_based_encoder as mbe
        from rl_blox.blox.preprocessing import two_hot_cross_entropy_loss, two_hot_decoding
        bins = jnp.asarray([-1.0, 0.0, 1.0])
        norm = self.normalize

        def f(state, obs, act, r, nobs, term, wd, wr, wdone):
            enc, enct = nnx.merge(gdef, state)
            flat = nobs.reshape(-1, D)
            tz = (enct.encode_zs(flat) if norm else enct.zs(flat)).reshape(obs.shape[0], H_ENC, -1)
            z = enc.encode_zs(obs[:, 0])
            ex = {"target_zs": tz}
            for t in range(H_ENC):
                dn, z, lg = enc.model_head(z, act[:, t])
                ex[f"done{t}"] = dn
                ex[f"zs{t}"] = z
                ex[f"ce{t}"] = two_hot_cross_entropy_loss(bins, lg, r[:, t])
                ex[f"rew{t}"] = two_hot_decoding(bins, jax.nn.softmax(lg))
            loss, comps = mbe.model_based_encoder_loss(enc, enct, bins, self._batch(obs, act, r, nobs, term), H_ENC, wd, wr, wdone, True, norm)
            return (loss, tuple(comps)), ex
        return f

    def spec(self, d, ex):
        obs, act, r, nobs, term, wd, wr, wdone = d
        r, term = S.SA(r), S.SA(term)
        B = r.shape[0]
        m = S.SA(np.array([Fraction(1)] * B, dtype=object))
        dyn = rew = done = rmse = S.SA(Fraction(0))
        for t in range(H_ENC):
            err = ex[f"zs{t}"] - ex["target_zs"][:, t]
            dyn = dyn + ((err * err) * m.reshape(B, 1)).mean()
            rew = rew + (ex[f"ce{t}"] * m).mean()
            de = ex[f"done{t}"] - term[:, t]
            done = done + ((de * de) * m).mean()
            re = ex[f"rew{t}"] - r[:, t]
            rmse = rmse + ((re * re) * m).mean()
            m = (1 - term[:, t]) * m
        total = S.SA(wd) * dyn + S.SA(wr) * rew + S.SA(wdone) * done
        return (total, (dyn, rew, done, rmse))

    def scalar_out(self, out):
        return [out[0]] + list(out[1])

    def grad(self, gdef):
        from rl_blox.blox.embedding import model_based_encoder as mbe
        bins = jnp.asarray([-1.0, 0.0, 1.0])
        norm = self.normalize

        def g_(state, obs, act, r, nobs, term, wd, wr, wdone):
            enc, enct = nnx.merge(gdef, state)
            return nnx.grad(lambda e_, et_, no_: mbe.model_based_encoder_loss(e_, et_, bins, self._batch(obs, act, r, no_, term), H_ENC, wd, wr, wdone, True, norm)[0],
                            argnums=(1, 2))(enc, enct, nobs)
        return g_


class EncoderLossRaw(EncoderLoss):
    site = "model_based_encoder_loss[normalize_targets=False]"
    normalize = False


EXTRA = [TD7Critic, MRQ, SALEEmbedding, EncoderLoss, EncoderLossRaw]


def _sale_target_gradient(rep, sess, tier, seed):
    """The SALE representation target z^{s'} is gradient-stopped: the gradient of the loss w.r.t. the embedding's
    parameters equals the gradient of mean((z^{sa} - const(z^{s'}))^2).  The loss VALUE cannot show a misplaced
    stop_gradient; the gradient w.r.t. the next observation (zero in both cases) cannot either."""
    from rl_blox.blox.embedding import sale
    B = 2
    for mode in ("all-parameters", "seeded-parameters-and-observations"):
        emb = zoo.sale(D, A, 2, seed + (0 if mode == "all-parameters" else 1))
        gdef, st = nnx.split(emb)
        rng = np.random.default_rng(seed)
        obs, act, _, nobs, _ = batch_data(B, rng, False)

        def f(state, obs, act, nobs, gdef=gdef):
            e_ = nnx.merge(gdef, state)
            g_real = nnx.grad(lambda m: sale.state_action_embedding_loss(m, obs, act, nobs))(e_)
            g_ref = nnx.grad(lambda m: jnp.mean((m(obs, act)[0] - jax.lax.stop_gradient(m.state_embedding(nobs))) ** 2))(e_)
            return jax.tree_util.tree_leaves(g_real), jax.tree_util.tree_leaves(g_ref)
        ex = (st, obs, act, nobs)
        kw = {} if mode == "all-parameters" else dict(overrides=lambda ins, ex=ex: ex, numeric_consts=True)
        e = E1(rep, sess, f, ex, f"state_action_embedding_loss:parameter-gradient[{mode}]", validate_sets=[ex] if mode == "all-parameters" else None, soft=True, **kw)
        r = e.obligation("gradient-wrt-embedding-parameters=gradient-with-the-target-held-constant",
                         lambda i, o: [S.close(S.SA(a), S.SA(b)) for a, b in zip(o[0], o[1])],
                         site="state_action_embedding_loss:target-embedding-is-gradient-stopped", timeout_s=20)
        if r is True or r is False:
            rep.extra.setdefault("sale_gradient_settled_at", mode)
            return
    for site_, why in e.pending:
        rep.inconclusive_(site_, why)


def _extra_cases(rep, sess, tier, seed):
    _sale_target_gradient(rep, sess, tier, seed)
    for C in EXTRA:
        c = C()
        c.B_list = (2,)
        run_case(rep, sess, c, tier, seed)
