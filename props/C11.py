"""C11 Step budget, episode discipline and step accounting are exact (F-LOOP, E2)."""
from __future__ import annotations

from e2_pysym import core as E
from props import loops as L
from props.e2common import E2Report

PROP = "C11"


def dqn_program(which, K, start):
    def prog(ctx):
        tr = L.run_dqn_family(ctx, which, K, start)
        L.check_budget_and_accounting(ctx, tr, counts_returned=(which != "per"))
        bs = tr.cfg["batch_size"]
        for (kind, at, p) in tr.w.of("train_step"):
            ctx.check(tr.loop_step_of(at) > bs, "no-parameter-update-before-the-warm-up-condition(step>batch_size)")
        ctx.log.append(f"{which}: executed={tr.env.n_steps} returned={tr.returned_step}")
    return prog


def continuous_program(which, K, start):
    def prog(ctx):
        tr = L.run_continuous(ctx, which, K, start, symbolic=("learning_starts", "total_episodes"))
        L.check_budget_and_accounting(ctx, tr)
        ls = tr.cfg["learning_starts"]
        for name in ("train_step", "update_actor", "soft_target_net_update", "entropy_update"):
            for (kind, at, p) in tr.w.of(name):
                ctx.check(tr.loop_step_of(at) >= ls, "no-parameter-update-before-the-warm-up-condition(step>=learning_starts)")
        ctx.log.append(f"{which}: executed={tr.env.n_steps} returned={tr.returned_step}")
    return prog


def td7_program(K, start):
    def prog(ctx):
        tr = L.run_td7(ctx, K, start, symbolic=("learning_starts", "total_episodes"))
        L.check_budget_and_accounting(ctx, tr)
        ls = tr.cfg["learning_starts"]
        for name in ("train_iteration", "update_sale", "update_critic", "update_actor"):
            for (kind, at, p) in tr.w.of(name):
                ctx.check(tr.loop_step_of(at) >= ls, "no-parameter-update-before-the-warm-up-condition(step>=learning_starts)")
    return prog


def mrq_program(K, start):
    def prog(ctx):
        tr = L.run_mrq(ctx, K, start, symbolic=("learning_starts", "total_episodes"))
        L.check_budget_and_accounting(ctx, tr)
        ls = tr.cfg["learning_starts"]
        for name in ("update_encoder", "update_critic_and_policy"):
            for (kind, at, p) in tr.w.of(name):
                ctx.check(tr.loop_step_of(at) >= ls, "no-parameter-update-before-the-warm-up-condition(step>=learning_starts)")
    return prog


def pets_program(K):
    def prog(ctx):
        tr = L.run_pets(ctx, "pets", K, 0, symbolic=("learning_starts",))
        ctx.check(tr.env.n_steps == K, "never-executes-more-steps-than-the-remaining-budget")
        ls = tr.cfg["learning_starts"]
        ups = {}
        for (_, at, p) in tr.w.of("update_dynamics_model"):
            ups[at] = ups.get(at, 0) + 1
        for t in range(K):
            want = (t >= ls) & (((t - ls) % 2) == 0)   # n_steps_per_iteration = 2 in the runner
            got = ups.get(t, 0)
            ctx.check((got == 1) == want, "pets:model-updates-exactly-every-n-steps-after-the-warm-up(no-update-before-learning_starts)")
        for (_, at, p) in tr.w.of("planner"):
            if not p["warmup"]:
                ctx.check(at >= ls, "pets:planner-actions-only-after-warm-up")
    return prog


def rollout_program(ctx):
    """generate_rollout: one episode, never stepping past its end."""
    from rl_blox.util import experiment_helper as eh
    from props import loopworld as W
    from props.e2common import overlay
    import numpy as np
    w = W.World()
    env = W.RecEnv(w, discrete=True, max_steps=8, symbolic_rewards=False)
    env.force_end_at = 4

    class J:
        class random:
            key = staticmethod(lambda s: ("key", s))
            split = staticmethod(lambda k, num=2: [("s", k, 0), ("s", k, 1)])

    class Jnp:
        array = staticmethod(lambda x: list(x))
    calls = []

    def policy(observation, key):
        calls.append(observation)
        return len(calls)
    with overlay(eh, jax=J, jnp=Jnp):
        obs, acts, rews = eh.generate_rollout(env, policy, seed=0)
    last = env.steps[-1]
    ctx.check(W.b_or(last["terminated"], last["truncated"]), "rollout-ends-with-the-episode")
    ctx.check(len(obs) == env.n_steps + 1 and len(acts) == env.n_steps and len(rews) == env.n_steps, "rollout-records-every-step")


def uts_program(total, eps):
    def prog(ctx):
        w, ts, res = L.run_uts(ctx, total, eps)
        executed = sum(e.n_steps for e in ts.envs_)
        ctx.check(executed <= total, "scheduler-never-exceeds-the-total-budget")
        ctx.check(res.global_step == executed, "scheduler-step-count=steps-actually-executed")
        ctx.check(executed == total, "scheduler-uses-the-whole-budget")
    return prog


def smt_program(b1, b2, interval):
    def prog(ctx):
        try:
            w, ts, buf, res = L.run_smt(ctx, b1, b2, interval)
        except E.PathAbort:
            raise
        except Exception as ex:  # the scheduler itself fails (e.g. its step counter overshoots the stage budget)
            ctx.log.append(f"train_smt raised {type(ex).__name__}: {ex}")
            ctx.check(False, "scheduler-completes-with-consistent-step-accounting")
        result_st, training_steps, perf = res
        executed = [e.n_steps for e in ts.envs_]
        ctx.check(sum(executed) <= b1 + b2, "scheduler-never-exceeds-the-total-budget")
        for t in range(len(executed)):
            ctx.check(int(training_steps[t]) == executed[t], "per-task-step-totals=steps-actually-executed-on-that-task")
        ctx.check(int(sum(training_steps)) == sum(executed), "per-task-totals-sum-to-the-executed-steps")
        for t in buf.selected:
            ctx.check(0 <= t < len(executed), "scheduler-selects-valid-task-ids")
    return prog


def amt_program(total, interval):
    def prog(ctx):
        try:
            w, ts, buf, res = L.run_active_mt(ctx, total, interval)
        except E.PathAbort:
            raise
        except Exception as ex:
            ctx.log.append(f"train_active_mt raised {type(ex).__name__}: {ex}")
            ctx.check(False, "scheduler-completes-with-consistent-step-accounting")
        result_st, training_steps = res
        executed = [e.n_steps for e in ts.envs_]
        ctx.check(sum(executed) <= total, "scheduler-never-exceeds-the-total-budget")
        for t in range(len(executed)):
            ctx.check(int(training_steps[t]) == executed[t], "per-task-step-totals=steps-actually-executed-on-that-task")
        for t in buf.selected:
            ctx.check(0 <= t < len(executed), "scheduler-selects-valid-task-ids")
    return prog


def selector_programs():
    from e2_pysym.core import sym_real
    import numpy as np
    from rl_blox.blox import multitask as mt
    from rl_blox.blox import mapb

    def round_robin(ctx):
        tasks = np.arange(3)
        sel = mt.RoundRobinSelector(tasks)
        for i in range(5):
            t = sel.select()
            ctx.check(t in (0, 1, 2), "selector-returns-valid-task-ids")
            try:
                sel.select()
                ctx.check(False, "selection-and-feedback-strictly-alternate")
            except AssertionError:
                pass
            sel.feedback(sym_real(f"r{i}"))
            try:
                sel.feedback(0.0)
                ctx.check(False, "selection-and-feedback-strictly-alternate")
            except AssertionError:
                pass

    def _ref_vals(b, n, window=250):
        """discounted mean + bonus per arm from the recorded history (independent of the class's own helpers)"""
        import math
        t = len(b.chosen_arms)
        num, cnt = [0] * n, [0.0] * n
        for s_ in range(max(0, t - window), t):
            w = b.gamma ** (t - 1 - s_)
            a = int(b.chosen_arms[s_])
            num[a] = num[a] + w * b.rewards[s_]
            cnt[a] += w
        tot = sum(cnt)
        return [num[j] / cnt[j] + 2 * b.upper_bound * math.sqrt(b.zeta * math.log(tot) / cnt[j]) for j in range(n)]

    def ducb(ctx):
        n = 2
        b = mapb.DUCB(n_arms=n, upper_bound=1.0, gamma=0.5, zeta=0.002)
        for i in range(2 * n + 1):
            before = len(b.rewards)
            vals = _ref_vals(b, n) if before >= 2 * n else None
            arm = b.choose_arm()
            ctx.check(0 <= int(arm) < n, "selector-returns-valid-task-ids")
            if before < 2 * n:
                ctx.check(int(arm) == before % n, "ducb-plays-every-arm-in-its-initial-rounds")
            else:
                for j in range(n):
                    ctx.check(vals[int(arm)] >= vals[j], "ducb-afterwards-plays-an-arm-maximising-discounted-mean+bonus")
            b.reward(sym_real(f"rew{i}", 0, 1))

    def ducb_long(ctx):
        """history longer than the 250-round window: state constructed directly (251 and 253 recorded rounds), the
        rewards at both ends of the window symbolic, the others 1/2"""
        n = 2
        for t in (251, 253):
            b = mapb.DUCB(n_arms=n, upper_bound=1.0, gamma=0.5, zeta=0.002)
            b.chosen_arms = [(s_ * 7 // 3) % n for s_ in range(t)]
            sym_at = {0, 1, 2, 3, t - 3, t - 2, t - 1}
            b.rewards = [sym_real(f"rew{t}_{s_}", 0, 1) if s_ in sym_at else 0.5 for s_ in range(t)]
            b._episode_finished()
            vals = _ref_vals(b, n)
            arm = b.choose_arm()
            for j in range(n):
                ctx.check(vals[int(arm)] >= vals[j], "ducb-afterwards-plays-an-arm-maximising-discounted-mean+bonus")

    def ducb_general(ctx):
        tasks = np.arange(2)
        sel = mt.DUCBGeneralized(tasks, upper_bound=1.0, ducb_gamma=0.9, zeta=0.002, baseline=None, op=None)
        for i in range(3):
            t = sel.select()
            ctx.check(int(t) in (0, 1), "selector-returns-valid-task-ids")
            try:
                sel.select()
                ctx.check(False, "selection-and-feedback-strictly-alternate")
            except AssertionError:
                pass
            sel.feedback(sym_real(f"r{i}", 0, 1))
    return [("RoundRobinSelector", round_robin), ("mapb.DUCB", ducb), ("mapb.DUCB[history>window]", ducb_long), ("DUCBGeneralized", ducb_general)]


def main(tier, seed):
    rep = E2Report(PROP, tier, seed)
    Ks = [0, 1, 3] if tier == "quick" else [0, 1, 2, 3, 4]
    starts = [0, 2]
    rep.r.bounds = {"remaining_budget_K": Ks, "global_step": starts, "symbolic": "terminated/truncated of every step, rewards, epsilon rolls, batch_size in [0,3], "
                    "update/target frequencies in [1,3], learning_starts in [0,total+1], total_episodes in {None,1,2,3}"}
    rep.r.assumptions = ["environment, networks, update routines, PRNG and progress bar are recording nondeterministic stubs (listed under stubs)",
                         "the environment stub asserts 'no step after an episode end without reset'"]
    rep.r.stubs = ["env (RecEnv)", "action_space.sample", "greedy_policy", "train_step_with_loss", "hard_target_net_update", "per_priority", "nnx.clone/jit", "jax.random.uniform -> symbolic rolls", "trange"]
    for which in ("dqn", "nature_dqn", "ddqn", "per"):
        for K in Ks:
            for start in starts:
                rep.run(f"train_{which}[K={K},global_step={start}]", dqn_program(which, K, start), fn=f"rl_blox.algorithm.{which}.train_*",
                        site_of=lambda label, which=which: f"train_{which}:{label}")
    for which in ("ddpg", "td3", "td3_lap", "sac"):
        for K in Ks:
            for start in starts:
                rep.run(f"train_{which}[K={K},global_step={start}]", continuous_program(which, K, start), fn=f"rl_blox.algorithm.{which}.train_{which}",
                        site_of=lambda label, which=which: f"train_{which}:{label}")
    for K in Ks:
        for start in starts:
            rep.run(f"train_td7[K={K},global_step={start}]", td7_program(K, start), fn="rl_blox.algorithm.td7.train_td7/_train_step", site_of=lambda label: f"train_td7:{label}")
            rep.run(f"train_mrq[K={K},global_step={start}]", mrq_program(K, start), fn="rl_blox.algorithm.mrq.train_mrq", site_of=lambda label: f"train_mrq:{label}")
    for K in ([3, 4] if tier == "quick" else [3, 4, 5, 6]):
        rep.run(f"train_pets[K={K}]", pets_program(K), fn="rl_blox.algorithm.pets.train_pets", site_of=lambda label: f"train_pets:{label}")
    rep.run("generate_rollout", rollout_program, fn="rl_blox.util.experiment_helper.generate_rollout", site_of=lambda label: f"generate_rollout:{label}")
    for total, eps in ([(3, 1), (4, 2)] if tier == "quick" else [(3, 1), (4, 2), (5, 2), (6, 3)]):
        rep.run(f"train_uts[total={total},episodes_per_task={eps}]", uts_program(total, eps), fn="rl_blox.algorithm.uniform_task_sampling.train_uts (train_st = contract stub)",
                site_of=lambda label: f"train_uts:{label}")
    for b1, b2, iv in ([(3, 2, 1), (4, 2, 2)] if tier == "quick" else [(3, 2, 1), (4, 2, 2), (5, 3, 2), (4, 3, 3)]):
        rep.run(f"train_smt[b1={b1},b2={b2},interval={iv}]", smt_program(b1, b2, iv), fn="rl_blox.algorithm.smt.train_smt/smt_stage1/smt_stage2 (train_st = contract stub)",
                site_of=lambda label: f"train_smt:{label}")
    for total, iv in ([(3, 1), (4, 2)] if tier == "quick" else [(3, 1), (4, 2), (5, 2), (6, 3)]):
        rep.run(f"train_active_mt[total={total},interval={iv}]", amt_program(total, iv), fn="rl_blox.algorithm.active_mt.train_active_mt (train_st = contract stub, RoundRobinSelector)",
                site_of=lambda label: f"train_active_mt:{label}")
    for name, prog in selector_programs():
        rep.run(name, prog, fn=f"rl_blox.blox.multitask/mapb {name}", site_of=lambda label, name=name: f"{name}:{label}")
    return rep.finish()


def replay(path):
    import json
    print(json.dumps(json.load(open(path)), indent=1))
    return main("quick", 0)
