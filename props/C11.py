"""C11 Step budget, episode discipline and step accounting are exact (F-LOOP, E2)."""
from __future__ import annotations

from e2_pysym import core as E
from props import loops as L
from props.e2common import E2Report

PROP = "C11"


def dqn_program(which, K, start):
    def prog(ctx):
        tr = L.run_dqn_family(ctx, which, K, start)
        L.check_budget_and_accounting(ctx, tr, counts_returned=(which != "per"))
        bs = tr.cfg["batch_size"]
        for (kind, at, p) in tr.w.of("train_step"):
            ctx.check(tr.loop_step_of(at) > bs, "no-parameter-update-before-the-warm-up-condition(step>batch_size)")
        ctx.log.append(f"{which}: executed={tr.env.n_steps} returned={tr.returned_step}")
    return prog


def continuous_program(which, K, start):
    def prog(ctx):
        tr = L.run_continuous(ctx, which, K, start, symbolic=("learning_starts", "total_episodes"))
        L.check_budget_and_accounting(ctx, tr)
        ls = tr.cfg["learning_starts"]
        for name in ("train_step", "update_actor", "soft_target_net_update", "entropy_update"):
            for (kind, at, p) in tr.w.of(name):
                ctx.check(tr.loop_step_of(at) >= ls, "no-parameter-update-before-the-warm-up-condition(step>=learning_starts)")
        ctx.log.append(f"{which}: executed={tr.env.n_steps} returned={tr.returned_step}")
    return prog


def td7_program(K, start):
    def prog(ctx):
        tr = L.run_td7(ctx, K, start, symbolic=("learning_starts", "total_episodes"))
        L.check_budget_and_accounting(ctx, tr)
        ls = tr.cfg["learning_starts"]
        for name in ("train_iteration", "update_sale", "update_critic", "update_actor"):
            for (kind, at, p) in tr.w.of(name):
                ctx.check(tr.loop_step_of(at) >= ls, "no-parameter-update-before-the-warm-up-condition(step>=learning_starts)")
    return prog


def mrq_program(K, start):
    def prog(ctx):
        tr = L.run_mrq(ctx, K, start, symbolic=("learning_starts", "total_episodes"))
        L.check_budget_and_accounting(ctx, tr)
        ls = tr.cfg["learning_starts"]
        for name in ("update_encoder", "update_critic_and_policy"):
            for (kind, at, p) in tr.w.of(name):
                ctx.check(tr.loop_step_of(at) >= ls, "no-parameter-update-before-the-warm-up-condition(step>=learning_starts)")
    return prog


def main(tier, seed):
    rep = E2Report(PROP, tier, seed)
    Ks = [0, 1, 3] if tier == "quick" else [0, 1, 2, 3, 4, 5]
    starts = [0, 2]
    rep.r.bounds = {"remaining_budget_K": Ks, "global_step": starts, "symbolic": "terminated/truncated of every step, rewards, epsilon rolls, batch_size in [0,3], "
                    "update/target frequencies in [1,3], learning_starts in [0,total+1], total_episodes in {None,1,2,3}"}
    rep.r.assumptions = ["environment, networks, update routines, PRNG and progress bar are recording nondeterministic stubs (listed under stubs)",
                         "the environment stub asserts 'no step after an episode end without reset'"]
    rep.r.stubs = ["env (RecEnv)", "action_space.sample", "greedy_policy", "train_step_with_loss", "hard_target_net_update", "per_priority", "nnx.clone/jit", "jax.random.uniform -> symbolic rolls", "trange"]
    for which in ("dqn", "nature_dqn", "ddqn", "per"):
        for K in Ks:
            for start in starts:
                rep.run(f"train_{which}[K={K},global_step={start}]", dqn_program(which, K, start), fn=f"rl_blox.algorithm.{which}.train_*",
                        site_of=lambda label, which=which: f"train_{which}:{label}")
    for which in ("ddpg", "td3", "td3_lap", "sac"):
        for K in Ks:
            for start in starts:
                rep.run(f"train_{which}[K={K},global_step={start}]", continuous_program(which, K, start), fn=f"rl_blox.algorithm.{which}.train_{which}",
                        site_of=lambda label, which=which: f"train_{which}:{label}")
    for K in Ks:
        for start in starts:
            rep.run(f"train_td7[K={K},global_step={start}]", td7_program(K, start), fn="rl_blox.algorithm.td7.train_td7/_train_step", site_of=lambda label: f"train_td7:{label}")
            rep.run(f"train_mrq[K={K},global_step={start}]", mrq_program(K, start), fn="rl_blox.algorithm.mrq.train_mrq", site_of=lambda label: f"train_mrq:{label}")
    return rep.finish()


def replay(path):
    import json
    print(json.dumps(json.load(open(path)), indent=1))
    return main("quick", 0)
