"""Shared plumbing for E2 harnesses: overlay of module globals, reporting, replay."""
from __future__ import annotations

import contextlib
import time

import z3

from e2_pysym import core as E
from symcore.evidence import Report


@contextlib.contextmanager
def overlay(module, **names):
    """Temporarily rebind names in the namespace of the module under analysis."""
    missing = object()
    old = {k: getattr(module, k, missing) for k in names}
    try:
        for k, v in names.items():
            setattr(module, k, v)
        yield
    finally:
        for k, v in old.items():
            if v is missing:
                delattr(module, k)
            else:
                setattr(module, k, v)


class E2Report:
    """Runs explorations and folds their statistics / failures into a Report."""

    def __init__(self, prop, tier, seed):
        self.r = Report(prop, tier, seed)
        self.tier = tier
        self.max_paths = 4000 if tier == "quick" else 60000
        self.time_budget = 400 if tier == "quick" else 1200

    def run(self, site, program, fn=None, replay=None, max_paths=None, site_of=None):
        """program(ctx): one symbolic execution.  replay(label, model_values, detail) -> (reproduced, text)"""
        t0 = time.time()
        res = E.explore(program, max_paths=max_paths or self.max_paths, time_budget_s=self.time_budget)
        self.r.paths += res.paths
        self.r.branches += res.decisions
        self.r.solver_s += res.solver_s
        self.r.functions.append({"site": site, "code": fn or site, "paths": res.paths, "completed": res.completed, "infeasible": res.infeasible,
                                 "branch_decisions": res.decisions, "solver_queries": res.queries, "solver_s": round(res.solver_s, 3),
                                 "wall_s": round(time.time() - t0, 2), "budget_hit": res.budget_hit})
        failed = {f[0] for f in res.failures}
        bad_all = res.budget_hit or res.unknown
        for label, n in sorted(res.check_labels.items()):
            self.r.obligations.append({"name": f"{site}:{label}", "verdict": "sat" if label in failed else ("unknown" if bad_all else "unsat"),
                                       "secs": 0.0, "kind": "obligation", "validity_queries": n, "paths": res.paths})
        self.r.extra["solver_queries"] = self.r.extra.get("solver_queries", 0) + res.queries
        for s in res.samples[:2]:
            self.r.samples.append({"site": site, **s})
        if res.completed == 0 and not res.failures:
            self.r.inconclusive_(site, "no path completed (vacuous harness)")
        if res.budget_hit:
            self.r.inconclusive_(site, f"path/time budget exhausted after {res.paths} paths")
        if res.unknown:
            self.r.inconclusive_(site, f"{res.unknown} solver 'unknown' answers")
        for (label, model, detail, decisions, log) in res.failures:
            vsite = site_of(label) if site_of else f"{site}:{label}"
            try:
                if replay is None:
                    # generic replay: the same harness program drives the real code with the model's concrete values
                    got, values, rlog = E.replay_concrete(program, model) if model is not None else (None, {}, [])
                    ok = got == label
                    text = f"check '{label}' fails on the real code with concrete inputs" if ok else f"concrete run failed '{got}' instead of '{label}'"
                    obj = {"check": label, "inputs": values, "trace": [str(x) for x in rlog[:40]], "symbolic_trace": [str(x) for x in log[:40]]}
                else:
                    ok, text, obj = replay(label, model, detail, log)
            except Exception as ex:  # noqa
                self.r.inconclusive_(vsite, f"replay raised {type(ex).__name__}: {ex}")
                continue
            self.r.replayed += 1
            if ok:
                self.r.violation(vsite, text, obj)
            else:
                self.r.inconclusive_(vsite, "counterexample did not reproduce on the real code: " + text)
        return res

    def finish(self):
        self.r.extra["exhaustive_within_bounds"] = not any(f.get("budget_hit") for f in self.r.functions if isinstance(f, dict))
        return self.r.finish()
