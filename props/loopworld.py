"""F-LOOP world: recording nondeterministic stubs for running the real training-loop code
objects under E2.  Everything here is harness-owned; the loops themselves are rl_blox's."""
from __future__ import annotations

import types
from collections import namedtuple

import gymnasium as gym
import numpy as np

from e2_pysym import core as E
from e2_pysym.core import cur, sym_bool, sym_int, sym_real


def b_not(x):
    return (not x) if isinstance(x, bool) else ~x


def b_or(a, b):
    if isinstance(a, bool) and isinstance(b, bool):
        return a or b
    if isinstance(a, bool):
        return True if a else b
    if isinstance(b, bool):
        return True if b else a
    return a | b


def b_and(a, b):
    if isinstance(a, bool) and isinstance(b, bool):
        return a and b
    if isinstance(a, bool):
        return b if a else False
    if isinstance(b, bool):
        return a if b else False
    return a & b


def tag_obs(k):
    return np.array([float(k)], dtype=np.float32)


def tagval(x):
    """numeric identity of an observation/action tag"""
    if isinstance(x, (int, float, np.integer, np.floating)):
        return float(x)
    try:
        return float(np.asarray(x).reshape(-1)[0])
    except Exception:
        return x


class World:
    """Shared event log of one symbolic run."""

    def __init__(self):
        self.events = []  # (kind, env_steps_so_far, payload)
        self.n = 0

    def emit(self, kind, env_steps, **payload):
        self.events.append((kind, env_steps, payload))

    def of(self, kind):
        return [e for e in self.events if e[0] == kind]


class StubDiscrete(gym.spaces.Discrete):
    def __init__(self, n, world, env):
        super().__init__(n)
        self.w, self.env = world, env
        self.k = 0

    def sample(self, mask=None):
        self.k += 1
        a = 1000 + self.k
        self.w.emit("space_sample", self.env.n_steps, action=a)
        return a

    def seed(self, seed=None):
        self.w.emit("space_seed", self.env.n_steps, seed=seed)
        return [seed]


class StubBox(gym.spaces.Box):
    def __init__(self, world, env, d=1):
        super().__init__(low=-np.ones(d, dtype=np.float32), high=np.ones(d, dtype=np.float32))
        self.w, self.env = world, env
        self.k = 0

    def sample(self, mask=None):
        self.k += 1
        a = np.array([1000.0 + self.k], dtype=np.float32)
        self.w.emit("space_sample", self.env.n_steps, action=a)
        return a

    def seed(self, seed=None):
        self.w.emit("space_seed", self.env.n_steps, seed=seed)
        return [seed]


class RecEnv(gym.Env):
    """Recording environment: fresh observation tags, symbolic reward / terminated / truncated.
    Asserts that it is never stepped after an episode end without a reset."""

    metadata = {"render_modes": []}
    spec = None
    render_mode = None

    def __init__(self, world, discrete, max_steps=64, int_obs=False, symbolic_rewards=True):
        self.symbolic_rewards = symbolic_rewards
        self.w = world
        self.n_steps = 0
        self.n_resets = 0
        self.done = True  # needs a reset before the first step
        self.done_is_initial = True
        self.cur_obs = None
        self.int_obs = int_obs
        self.action_space = StubDiscrete(3, world, self) if discrete else StubBox(world, self)
        self.observation_space = gym.spaces.Discrete(5000) if int_obs else gym.spaces.Box(-np.inf, np.inf, (1,), dtype=np.float32)
        self.steps = []  # dicts
        self.resets = []
        self.ep_len = 0
        self.ep_ret = 0
        self.finished = 0
        self.max_steps = max_steps

    @property
    def unwrapped(self):
        return self

    def _tag(self, k):
        if self.int_obs:  # small, unique ints usable as table indices: steps 1..19, resets 20..
            return int(k) if k < 1000 else int(20 + (k - 1000))
        return tag_obs(k)

    def reset(self, *, seed=None, options=None):
        self.n_resets += 1
        obs = self._tag(1000 + self.n_resets)
        self.cur_obs = obs
        self.done = False
        self.done_is_initial = False
        self.ep_len, self.ep_ret = 0, 0
        self.resets.append({"seed": seed, "obs": obs, "after_steps": self.n_steps})
        self.w.emit("reset", self.n_steps, seed=seed, obs=obs)
        return obs, {}

    def step(self, action):
        ctx = cur()
        if self.done_is_initial:
            ctx.check(False, "environment-stepped-before-first-reset")
        ctx.check(b_not(self.done), "never-steps-an-ended-episode-without-reset")
        if self.n_steps >= self.max_steps:
            ctx.check(False, "runaway-loop(more steps than any budget in this harness)")
        self.n_steps += 1
        k = self.n_steps
        nobs = self._tag(k)
        r = sym_real(f"r{k}") if self.symbolic_rewards else 0.0
        term = sym_bool(f"term{k}")
        trunc = sym_bool(f"trunc{k}")
        if getattr(self, "force_end_at", None) == k:
            ctx.assume(b_or(term, trunc))  # episodes of this environment are finite (harness assumption)
        self.ep_len += 1
        self.ep_ret = self.ep_ret + r
        rec = {"k": k, "action": action, "obs": self.cur_obs, "next_obs": nobs, "reward": r, "terminated": term, "truncated": trunc}
        self.steps.append(rec)
        self.w.emit("step", k, **rec)
        self.cur_obs = nobs
        self.done = b_or(term, trunc)
        info = {}
        return nobs, r, term, trunc, info

    def close(self):
        pass


class RecBuffer:
    """Recording replay buffer (used where the property is about the loop, not the buffer)."""

    def __init__(self, world, env, fields=("observation", "action", "reward", "next_observation", "termination")):
        self.w, self.env = world, env
        self.adds = []
        self.n_samples = 0
        self.Batch = namedtuple("Batch", fields)
        self.fields = fields
        self.environment_terminates = True

    def add_sample(self, **kw):
        self.adds.append(dict(kw, _at=self.env.n_steps))
        self.w.emit("add", self.env.n_steps, **kw)

    with_ratio = False

    def sample_batch(self, batch_size, *a, **k):
        self.n_samples += 1
        self.w.emit("sample", self.env.n_steps, batch_size=batch_size)
        b = self.Batch(**{f: np.array([[7000.0 + self.n_samples]], dtype=np.float32) for f in self.fields})
        return (b, 1.0) if self.with_ratio else b

    def update_priority(self, p):
        self.w.emit("update_priority", self.env.n_steps)

    def reset_max_priority(self):
        self.w.emit("reset_max_priority", self.env.n_steps)

    def reward_scale(self, *a, **k):
        return 1.0

    def __len__(self):
        return len(self.adds)


class StubModule:
    """Opaque stand-in for a function approximator / optimizer (identity matters, content does not).
    Sub-modules (policy.encoder, ...) are created on first access."""

    def __init__(self, name):
        self.name = name

    def __getattr__(self, k):
        if k.startswith("_") or k in ("shape", "dtype"):
            raise AttributeError(k)
        c = StubModule(f"{self.name}.{k}")
        object.__setattr__(self, k, c)
        return c

    def __repr__(self):
        return f"<{self.name}>"


class Recorder:
    """Factory of recording nondeterministic stubs."""

    def __init__(self, world, env):
        self.w, self.env = world, env
        self.k = 0

    def fn(self, name, ret=None):
        def stub(*args, **kwargs):
            self.k += 1
            self.w.emit(name, self.env.n_steps, args=args, kwargs=kwargs)
            if callable(ret):
                return ret(self.k, *args, **kwargs)
            return ret
        stub.__name__ = name
        return stub


class NnxShim:
    """`nnx` inside a loop module: clone is recorded (fresh distinct object), jit/cached_partial are transparent."""

    def __init__(self, world, env):
        self.w, self.env = world, env

    def clone(self, m):
        c = StubModule(f"clone({getattr(m, 'name', m)})")
        object.__setattr__(c, "cloned_from", m)
        self.w.emit("clone", self.env.n_steps, src=m, dst=c)
        return c

    def jit(self, f=None, **kw):
        if f is None:
            return lambda g: g
        return f

    def cached_partial(self, f, *args):
        import functools
        return functools.partial(f, *args)

    def __getattr__(self, k):
        from flax import nnx
        return getattr(nnx, k)


class Bar:
    def update(self, *a, **k):
        pass

    def close(self):
        pass

    def set_description(self, *a, **k):
        pass


def trange_stub(*a, **k):
    r = range(*[int(x) for x in a])

    class _R:
        def __iter__(self_):
            return iter(r)

        def update(self_, *a, **k):
            pass

        def close(self_):
            pass
    return _R()


class _JaxClamped:
    """1-D array with jax's indexing semantics for integer indices: an out-of-range index is clamped, not an error
    (numpy object arrays would raise - and a loop that reads past its pre-drawn rolls would look like a harness error)."""

    def __init__(self, arr):
        self.arr = arr

    def __len__(self):
        return len(self.arr)

    def __getitem__(self, i):
        if isinstance(i, (int, np.integer, E.SymInt)):
            i = int(i)
            n = len(self.arr)
            i = i + n if -n <= i < 0 else i
            return self.arr[min(max(i, 0), n - 1)]
        return self.arr[i]

    def __iter__(self):
        return iter(self.arr)

    def __array__(self, dtype=None, copy=None):
        return np.asarray(self.arr, dtype=dtype) if dtype is not None else np.asarray(self.arr)


class JaxRandomShim:
    """jax.random inside a loop module: key handling is opaque, uniform draws are symbolic reals in
    [0,1) (so epsilon-greedy branches fork)."""

    def __init__(self, symbolic_rolls=True):
        self.k = 0
        self.symbolic_rolls = symbolic_rolls
        self.draws = []
        self.choices = []

    def key(self, seed):
        return ("key", seed)

    PRNGKey = key

    def split(self, key, num=2):
        return [("split", key, i) for i in range(int(num))]

    def uniform(self, key, shape=(), **kw):
        n = int(np.prod(shape)) if shape else 1
        from e2_pysym.npshim import SymArr
        if not self.symbolic_rolls:
            return np.full(shape, 0.5) if shape else 0.5
        out = []
        for i in range(n):
            self.k += 1
            out.append(sym_real(f"roll{self.k}", 0, 1, hi_open=True))
        self.draws.append(out)
        if not shape:
            return out[0]
        arr = SymArr(np.asarray(out, dtype=object).reshape(shape))
        return _JaxClamped(arr) if len(tuple(shape)) == 1 else arr

    def choice(self, key, a, *args, **kw):
        self.k += 1
        v = 9000 + self.k
        self.choices.append((key, a, v))
        return v

    def __getattr__(self, k):
        import jax
        return getattr(jax.random, k)


class JaxShim:
    def __init__(self, symbolic_rolls=True):
        self.random = JaxRandomShim(symbolic_rolls)

    def __getattr__(self, k):
        import jax
        return getattr(jax, k)


def identity_float(x):
    return x if isinstance(x, (E.SymReal, E.SymInt, E.SymBool)) else float(x)


def identity_int(x):
    return x if isinstance(x, (E.SymInt, E.SymBool)) else int(x)
