"""C12 Actor objectives have the documented value and gradient (E1: F-LOSS + gradient jaxprs)."""
from __future__ import annotations

from fractions import Fraction

import jax
import jax.numpy as jnp
import numpy as np
import z3
from flax import nnx

from props import zoo
from props.C03 import A, D, batch_data, f32
from props.common import E1, generalise, tier_params
from props.lossframe import LossCase, run_case
from props.nets import FreeNet
from symcore import sarray as S
from symcore import values as V
from symcore.evidence import Report
from symcore.solver import Session

PROP = "C12"
N_ACT = 3


# --------------------------------------------------------------------------------- value equalities (mode P / C)
class PseudoLoss(LossCase):
    site = "stochastic_policy_gradient_pseudo_loss"
    concrete_in_C = (0, 1)
    batch_args = (0, 1, 2)
    b1 = True

    def out_names(self):
        return ["pseudo_loss"]

    def build(self, seed):
        from rl_blox.blox.function_approximator.policy_head import SoftmaxPolicy
        return (SoftmaxPolicy(zoo.mlp(D, N_ACT, (2,), seed)),)

    def data(self, B, rng):
        return (f32(rng.normal(size=(B, D))), jnp.asarray(rng.integers(0, N_ACT, size=(B,)), dtype=jnp.int32), f32(rng.normal(size=(B,))))

    def hyps(self, d):
        return [S.SA(d[1]) >= 0, S.SA(d[1]) < N_ACT]

    def fn(self, gdef):
        from rl_blox.blox import losses

        def f(state, obs, act, w):
            (pol,) = nnx.merge(gdef, state)
            return (losses.stochastic_policy_gradient_pseudo_loss(obs, act, w, pol),), {"logp": pol.log_probability(obs, act)}
        return f

    def spec(self, d, ex):
        return (-((S.SA(d[2]) * ex["logp"]).mean()),)

    def scalar_out(self, out):
        return [out[0]]


class PseudoLossGauss(PseudoLoss):
    site = "stochastic_policy_gradient_pseudo_loss[Gaussian]"

    def build(self, seed):
        from rl_blox.blox.function_approximator.gaussian_mlp import GaussianMLP
        from rl_blox.blox.function_approximator.policy_head import GaussianPolicy
        return (GaussianPolicy(GaussianMLP(False, D, A, [2], "relu", nnx.Rngs(seed))),)

    def data(self, B, rng):
        return (f32(rng.normal(size=(B, D))), f32(rng.normal(size=(B, A))), f32(rng.normal(size=(B,))))

    def hyps(self, d):
        return []


class DPG(LossCase):
    site = "deterministic_policy_gradient_loss"
    concrete_in_C = (0,)
    batch_args = (0,)
    b1 = True

    def out_names(self):
        return ["actor_loss"]

    def build(self, seed):
        return (zoo.mlp(D + A, 1, (2,), seed), zoo.tanh_policy(D, A, (2,), seed + 3))

    def data(self, B, rng):
        return (f32(rng.normal(size=(B, D))),)

    def hyps(self, d):
        return []

    def fn(self, gdef):
        from rl_blox.blox import losses

        def f(state, obs):
            q, pol = nnx.merge(gdef, state)
            return (losses.deterministic_policy_gradient_loss(q, obs, pol),), {"q_pi": q(jnp.concatenate((obs, pol(obs)), axis=-1)).squeeze(-1)}
        return f

    def spec(self, d, ex):
        return (-(ex["q_pi"].mean()),)

    def scalar_out(self, out):
        return [out[0]]


class SACActor(LossCase):
    site = "sac_actor_loss"
    concrete_in_C = (0,)
    batch_args = (0,)
    b1 = False

    def out_names(self):
        return ["actor_loss"]

    def build(self, seed):
        from rl_blox.blox.function_approximator.gaussian_mlp import GaussianMLP
        from rl_blox.blox.function_approximator.policy_head import GaussianTanhPolicy
        return (GaussianTanhPolicy(GaussianMLP(True, D, A, [2], "relu", nnx.Rngs(seed + 3)), zoo.box(A)), zoo.double_q(D, A, (2,), seed))

    def data(self, B, rng):
        return (f32(rng.normal(size=(B, D))), 0.2, jax.random.key(int(rng.integers(0, 100))))

    def hyps(self, d):
        return []

    def fn(self, gdef):
        from rl_blox.algorithm import sac

        def f(state, obs, alpha, key):
            pol, q = nnx.merge(gdef, state)
            a = pol.sample(obs, key)
            oa = jnp.concatenate((obs, a), axis=-1)
            return (sac.sac_actor_loss(pol, q, alpha, key, obs),), {"logp": pol.log_probability(obs, a), "q1": q.q1(oa).squeeze(-1), "q2": q.q2(oa).squeeze(-1)}
        return f

    def spec(self, d, ex):
        return ((S.SA(d[1]) * ex["logp"] - S.minimum(ex["q1"], ex["q2"])).mean(),)

    def scalar_out(self, out):
        return [out[0]]


class TD7Actor(LossCase):
    site = "deterministic_policy_gradient_loss_sale"
    concrete_in_C = (0,)
    batch_args = (0,)
    b1 = False

    def out_names(self):
        return ["actor_loss"]

    def build(self, seed):
        pol = zoo.sale_policy(D, A, 2, seed)
        return (pol.embedding, zoo.sale_critic(D, A, 2, seed + 4), pol.actor)

    def data(self, B, rng):
        return (f32(rng.normal(size=(B, D))),)

    def hyps(self, d):
        return []

    def fn(self, gdef):
        from rl_blox.algorithm import td7

        def f(state, obs):
            emb, critic, actor = nnx.merge(gdef, state)
            zs = emb.state_embedding(obs)
            act = actor(obs, zs)
            zsa = emb.state_action_embedding(jnp.concatenate((zs, act), axis=-1))
            oa = jnp.concatenate((obs, act), axis=-1)
            return (td7.deterministic_policy_gradient_loss_sale(emb, critic, obs, actor),), {
                "q1": critic.q1(oa, zs=zs, zsa=zsa).squeeze(-1), "q2": critic.q2(oa, zs=zs, zsa=zsa).squeeze(-1)}
        return f

    def spec(self, d, ex):
        return (-((Fraction(1, 2) * (ex["q1"] + ex["q2"])).mean()),)

    def scalar_out(self, out):
        return [out[0]]


class MRQPolicy(LossCase):
    site = "mrq_policy_loss"
    concrete_in_C = (0,)
    batch_args = (0,)
    b1 = False

    def out_names(self):
        return ["policy_loss", "dpg_loss", "policy_regularization"]

    def build(self, seed):
        pwe = zoo.encoder_policy(D, A, seed)
        return (pwe.policy, zoo.mrq_q(seed), pwe.encoder)

    def data(self, B, rng):
        return (f32(rng.normal(size=(B, zoo.W))), 0.01)

    def hyps(self, d):
        return []

    def fn(self, gdef):
        from rl_blox.algorithm import mrq

        def f(state, zs, w):
            pol, q, enc = nnx.merge(gdef, state)
            act_raw = pol.policy_net(zs)
            zsa = enc.encode_zsa(zs, pol.scale_output(act_raw))
            loss, (dpg, reg) = mrq.mrq_policy_loss(pol, q, enc, zs, w)
            return (loss, dpg, reg), {"q1": q.q1(zsa).squeeze(-1), "q2": q.q2(zsa).squeeze(-1), "activation": act_raw}
        return f

    def spec(self, d, ex):
        dpg = -(S.minimum(ex["q1"], ex["q2"]).mean())
        reg = (ex["activation"] * ex["activation"]).mean()
        return (dpg + S.SA(d[1]) * reg, dpg, reg)

    def scalar_out(self, out):
        return list(out)


VALUE_CASES = [PseudoLoss, PseudoLossGauss, DPG, SACActor, TD7Actor, MRQPolicy]


# --------------------------------------------------------------------------------- PPO with a free-log-probability actor
class FreeActor(nnx.Module):
    """StochasticPolicyBase-compatible actor whose per-sample log-probabilities and entropies are free parameters."""

    def __init__(self, n):
        self.logp = nnx.Param(jnp.zeros(n))
        self.ent = nnx.Param(jnp.zeros(n))

    def log_probability(self, observation, action):
        return self.logp.value

    def entropy(self, observation):
        return self.ent.value


def _ppo(rep, sess, tier, seed):
    from rl_blox.algorithm import ppo
    N = 3
    rng = np.random.default_rng(seed)
    for critic_shape in ((N, 1), (N,)):
        actor = FreeActor(N)
        critic = FreeNet(critic_shape if len(critic_shape) == 2 else (N,))
        gdef, st = nnx.split((actor, critic))

        def crit_call(c, obs):
            return c.table.value

        def f(state, old, adv, ret, clip, gdef=gdef):
            a, c = nnx.merge(gdef, state)
            c_ = _ShapeCritic(c)
            loss = ppo.ppo_loss(a, c_, old, jnp.zeros((N, D)), jnp.zeros((N, 1)), adv, ret, clip)
            g = nnx.grad(lambda a_, c2: ppo.ppo_loss(a_, _ShapeCritic(c2), old, jnp.zeros((N, D)), jnp.zeros((N, 1)), adv, ret, clip), argnums=0)(a, c)
            return loss, g.logp.value
        ex = (st, f32(rng.normal(size=N) * 0.1), f32(rng.normal(size=N)), f32(rng.normal(size=N)), 0.2)
        site = f"ppo_loss[critic output shape {critic_shape}]"
        e = E1(rep, sess, f, ex, site, validate_sets=[ex])
        leaves = {jax.tree_util.keystr(p): l for p, l in jax.tree_util.tree_leaves_with_path(e.ins[0])}
        logp = S.SA([l for k, l in leaves.items() if "logp" in k][0])
        ent = S.SA([l for k, l in leaves.items() if "ent" in k][0])
        val = S.SA([l for k, l in leaves.items() if "table" in k][0]).reshape(N)
        old, adv, ret, clip = (S.SA(x) for x in e.ins[1:])
        e.add_hyp(clip > 0, clip < 1)
        e.check_reachable()

        def pick(i):
            lv = {jax.tree_util.keystr(p): l for p, l in jax.tree_util.tree_leaves_with_path(i[0])}
            return (S.SA([l for k, l in lv.items() if "logp" in k][0]), S.SA([l for k, l in lv.items() if "ent" in k][0]),
                    S.SA([l for k, l in lv.items() if "table" in k][0]).reshape(N))

        def value_term(i, o):
            lp, en, v = pick(i)
            old_, adv_, ret_, c_ = (S.SA(x) for x in i[1:])
            r = S.exp(lp - old_)
            s1, s2 = r * adv_, S.clip(r, 1 - c_, 1 + c_) * adv_
            pol = -(S.minimum(s1, s2).mean())
            vl = ((ret_ - v) ** 2).mean()
            return S.close(S.SA(o[0]), pol + Fraction(1, 2) * vl - (Fraction(float(np.float32(0.01))) if not S.MODE.numeric else Fraction(1, 100)) * en.mean())
        e.obligation("loss=clipped-surrogate+0.5*per-sample-squared-value-error-0.01*entropy", value_term, site="ppo_loss:value-term-is-per-sample-squared-error")
        e.obligation("gradient-at-unchanged-policy=gradient-of-unclipped-surrogate",
                     lambda i, o: S.close(S.SA(o[1]), -(S.SA(i[2]) / N)), extra_hyps=[logp.eq(old)])
        for k in range(N):
            r_k = S.exp(logp[k] - old[k])
            e.obligation(f"zero-policy-gradient-for-sample{k}-clipped-on-its-favoured-side",
                         lambda i, o, k=k: S.SA(o[1])[k].eq(0),
                         extra_hyps=[((r_k > 1 + clip) & (adv[k] > 0)) | ((r_k < 1 - clip) & (adv[k] < 0))])


def _actor_gradients(rep, sess, tier, seed):
    """Deterministic actor objectives: the gradient w.r.t. the ACTOR's parameters is the gradient of the documented
    formula -mean Q(o, pi(o)) with the action flowing through every path into the critic (embeddings included).  A loss
    can have the right value and still cut part of that path (stop_gradient): values alone do not see it.  Real loss
    and reference formula are differentiated side by side in one traced function; first for all parameter values
    (symbolic state), then - if that is not settled - for seeded parameters (decidable, replayable)."""
    from rl_blox.algorithm import mrq, td7
    from rl_blox.blox import losses
    B = 2
    rng = np.random.default_rng(seed)

    def dpg(s_):
        mods = (zoo.mlp(D + A, 1, (2,), s_), zoo.tanh_policy(D, A, (2,), s_ + 3))

        def real(m, obs, pol):
            return losses.deterministic_policy_gradient_loss(m[0], obs, pol)

        def ref(m, obs, pol):
            return -jnp.mean(m[0](jnp.concatenate((obs, pol(obs)), axis=-1)))
        return mods, 1, real, ref, (f32(rng.normal(size=(B, D))),)

    def td7_sale(s_):
        pol = zoo.sale_policy(D, A, 2, s_)
        mods = (pol.embedding, zoo.sale_critic(D, A, 2, s_ + 4), pol.actor)

        def real(m, obs, actor):
            return td7.deterministic_policy_gradient_loss_sale(m[0], m[1], obs, actor)

        def ref(m, obs, actor):
            emb, critic = m[0], m[1]
            zs = emb.state_embedding(obs)
            act = actor(obs, zs)
            zsa = emb.state_action_embedding(jnp.concatenate((zs, act), axis=-1))
            # pi(o) evaluated a second time for the critic's raw input (same value; keeps the sum structure of the
            # gradient comparable term by term for the solver)
            oa = jnp.concatenate((obs, actor(obs, zs)), axis=-1)
            return -jnp.mean(0.5 * (critic.q1(oa, zs=zs, zsa=zsa) + critic.q2(oa, zs=zs, zsa=zsa)))
        return mods, 2, real, ref, (f32(rng.normal(size=(B, D))),)

    def mrq_pol(s_):
        pwe = zoo.encoder_policy(D, A, s_)
        mods = (pwe.policy, zoo.mrq_q(s_), pwe.encoder)

        def real(m, zs, pol):
            return mrq.mrq_policy_loss(pol, m[1], m[2], zs, 0.01)[0]

        def ref(m, zs, pol):
            raw = pol.policy_net(zs)
            zsa = m[2].encode_zsa(zs, pol.scale_output(raw))
            q = m[1]
            return -jnp.mean(jnp.minimum(q.q1(zsa), q.q2(zsa))) + 0.01 * jnp.mean(raw * raw)
        return mods, 0, real, ref, (f32(rng.normal(size=(B, zoo.W))),)

    for name, mk in (("deterministic_policy_gradient_loss", dpg), ("deterministic_policy_gradient_loss_sale", td7_sale), ("mrq_policy_loss", mrq_pol)):
        settled = False
        for mode in ("all-parameters", "seeded-parameters", "seeded-parameters-and-observations", "seeded-parameters-and-observations#2"):
            mods, ai, real, ref, data = mk(seed + {"all-parameters": 0, "seeded-parameters": 1, "seeded-parameters-and-observations": 1}.get(mode, 2))
            gdef, st = nnx.split(mods)

            def f(state, x, gdef=gdef, ai=ai, real=real, ref=ref):
                m = list(nnx.merge(gdef, state))
                g_real = nnx.grad(lambda *mm: real(list(mm), x, mm[ai]), argnums=ai)(*m)
                g_ref = nnx.grad(lambda *mm: ref(list(mm), x, mm[ai]), argnums=ai)(*m)
                return jax.tree_util.tree_leaves(g_real), jax.tree_util.tree_leaves(g_ref)
            ex = (st,) + tuple(data)
            kw = {}
            if mode == "seeded-parameters":
                kw = dict(overrides=lambda ins, st=st, data=data: (st,) + tuple(ins[1:]), numeric_consts=True)
            elif mode.startswith("seeded-parameters-and-observations"):
                # last resort (ground obligation): decides the seeded point only - recorded as such
                kw = dict(overrides=lambda ins, st=st, data=data: (st,) + tuple(data), numeric_consts=True)
            e = E1(rep, sess, f, ex, f"{name}:actor-gradient[{mode}]", validate_sets=[ex] if mode == "all-parameters" else None, soft=True, **kw)
            r = e.obligation("gradient-wrt-actor=gradient-of-the-documented-formula",
                             lambda i, o: [S.close(S.SA(a), S.SA(b)) for a, b in zip(o[0], o[1])],
                             site=f"{name}:actor-gradient-is-the-gradient-of-the-documented-objective", timeout_s=10 if mode != "all-parameters" else 20)
            if r is True or r is False:
                rep.extra.setdefault("actor_gradient_settled_at", {})[name] = mode
                settled = True
                if r is False or not mode.endswith("observations"):
                    break
        if not settled:
            for site_, why in e.pending:
                rep.inconclusive_(site_, why)


def _ppo_update(rep, sess, tier, seed):
    """update_ppo over several epochs: every epoch optimises the clipped surrogate against the log-probabilities of the
    ROLLOUT policy (those before the first step) - otherwise the ratio restarts at 1 each epoch and the clip, hence
    'zero policy gradient to samples clipped on their favoured side', never engages.  The real routine and a reference
    that calls the real ppo_loss with the rollout log-probabilities held fixed are traced side by side (SGD, free actor)."""
    import optax
    from rl_blox.algorithm import ppo
    N, LRP = 3, 0.5
    rng = np.random.default_rng(seed)
    for epochs in ((2,) if tier == "quick" else (2, 3)):
        actor, critic = FreeActor(N), FreeNet((N, 1))
        gdef, st = nnx.split((actor, critic))
        obs, act = jnp.zeros((N, D)), jnp.zeros((N, 1))

        def f(state, reward, term, next_value, gdef=gdef, epochs=epochs):
            state0 = jax.tree_util.tree_map(lambda x: x + 0, state)  # nnx.merge shares Variables with the state it is given
            a, c = nnx.merge(gdef, state)
            ppo.update_ppo(a, c, nnx.Optimizer(a, optax.sgd(LRP), wrt=nnx.Param), nnx.Optimizer(c, optax.sgd(LRP), wrt=nnx.Param),
                           obs, act, reward, term, next_value, epochs)
            real = (a.logp.value + 0, c.table.value + 0)
            a2, c2 = nnx.merge(gdef, state0)
            advs, rets = ppo.compute_gae(reward, c2(obs).flatten(), next_value, term)
            old = a2.log_probability(obs, act) + 0.0  # rollout log-probabilities, fixed for every epoch
            for _ in range(epochs):
                ga, gc = nnx.grad(ppo.ppo_loss, argnums=(0, 1))(a2, c2, old, obs, act, advs, rets)
                a2.logp.value = a2.logp.value - LRP * ga.logp.value
                a2.ent.value = a2.ent.value - LRP * ga.ent.value
                c2.table.value = c2.table.value - LRP * gc.table.value
            return real, (a2.logp.value, c2.table.value)
        ex = (st, f32(rng.normal(size=N)), jnp.zeros(N), f32(rng.normal(size=N)))
        # seeded rollout with large advantages: the first step pushes ratios out of the clip range
        ex_big = (st, f32(rng.normal(size=N) * 8), jnp.zeros(N), f32(rng.normal(size=N)))
        e = E1(rep, sess, f, ex, f"update_ppo[epochs={epochs}]", validate_sets=[ex, ex_big])
        e.add_hyp(*[(x.eq(0) | x.eq(1)) for x in [S.SA(e.ins[2])]])
        e.obligation("actor-after-all-epochs=SGD-on-ppo_loss-against-the-rollout-log-probabilities",
                     lambda i, o: S.close(S.SA(o[0][0]), S.SA(o[1][0])), site="ppo.update_ppo:old-log-probabilities-are-those-of-the-rollout-policy", split=True)
        e.obligation("critic-after-all-epochs=SGD-on-ppo_loss", lambda i, o: S.close(S.SA(o[0][1]), S.SA(o[1][1])),
                     site="ppo.update_ppo:critic-follows-the-value-term", split=True)


class _ShapeCritic:
    def __init__(self, c):
        self.c = c

    def __call__(self, obs):
        return self.c.table.value


# --------------------------------------------------------------------------------- gradients of the policy-gradient routines
def _pg_gradients(rep, sess, tier, seed):
    from rl_blox.algorithm import a2c, actor_critic, reinforce
    from rl_blox.blox.function_approximator.policy_head import SoftmaxPolicy
    B = 2
    rng = np.random.default_rng(seed)
    pol = SoftmaxPolicy(zoo.mlp(D, N_ACT, (), seed))
    vf = zoo.mlp(D, 1, (), seed + 1)
    gdef, st = nnx.split((pol, vf))
    obs0, nobs0 = f32(rng.normal(size=(B, D))), f32(rng.normal(size=(B, D)))
    act0 = jnp.asarray(rng.integers(0, N_ACT, size=(B,)), dtype=jnp.int32)
    ret0, gd0, rew0 = f32(rng.normal(size=B)), f32(rng.random(B)), f32(rng.normal(size=B))

    def ref_grad(p, obs, act, w):
        return nnx.grad(lambda p_: -jnp.mean(jax.lax.stop_gradient(w) * p_.log_probability(obs, act)))(p)

    def f_reinforce(state, obs, act, ret, gd):
        p, v = nnx.merge(gdef, state)
        loss, g = reinforce.reinforce_gradient(p, v, obs, act, ret, gd)
        w = (ret - v(obs).squeeze()) * gd
        return loss, g, ref_grad(p, obs, act, w), -jnp.mean(w * p.log_probability(obs, act))

    def f_ac(state, obs, act, nobs, rew, gd, gamma):
        p, v = nnx.merge(gdef, state)
        loss, g = actor_critic.actor_critic_policy_gradient(p, v, obs, act, nobs, rew, gd, gamma)
        w = gd * (rew + gamma * v(nobs).squeeze() - v(obs).squeeze())
        return loss, g, ref_grad(p, obs, act, w), -jnp.mean(w * p.log_probability(obs, act))

    def f_a2c(state, obs, act, adv):
        p, v = nnx.merge(gdef, state)
        loss, g = a2c.a2c_policy_gradient(p, obs, act, adv)
        return loss, g, ref_grad(p, obs, act, adv), -jnp.mean(adv * p.log_probability(obs, act))
    cases = [("reinforce_gradient", f_reinforce, (st, obs0, act0, ret0, gd0)),
             ("actor_critic_policy_gradient", f_ac, (st, obs0, act0, nobs0, rew0, gd0, 0.9)),
             ("a2c_policy_gradient", f_a2c, (st, obs0, act0, ret0))]
    for name, fn, ex in cases:
        e = E1(rep, sess, fn, ex, name, validate_sets=[ex])
        e.add_hyp(S.SA(e.ins[2]) >= 0, S.SA(e.ins[2]) < N_ACT)

        def same(i, o):
            goals = [S.close(S.SA(o[0]), S.SA(o[3]))]
            for a, b in zip(jax.tree_util.tree_leaves(o[1]), jax.tree_util.tree_leaves(o[2])):
                goals.append(S.close(S.SA(a), S.SA(b)))
            return goals
        # generalise the shared forward quantities is unnecessary: both sides are built from identical sub-terms
        e.soft = True
        r_ = e.obligation("value=-mean(w*logpi);gradient=gradient-of-the-reference-with-weights-as-constants", same, site=f"{name}:documented-value-and-gradient")
        if r_ is None:
            # mode C: concrete seeded parameters / observations / actions, symbolic weights-related data -> replayable counterexample
            e2 = E1(rep, sess, fn, ex, name + "[mode=C]", overrides=lambda ins, ex=ex: tuple(ex[:3]) + tuple(ins[3:]), numeric_consts=True, soft=True)
            r2 = e2.obligation("value=-mean(w*logpi);gradient=gradient-of-the-reference-with-weights-as-constants", same, site=f"{name}:documented-value-and-gradient")
            if r2 is not False:
                for s_, w_ in e.pending + e2.pending:
                    rep.inconclusive_(s_, w_)


# --------------------------------------------------------------------------------- temperature
def _temperature(rep, sess, tier, seed):
    import optax
    from rl_blox.algorithm import sac
    B = 2
    alpha = sac.EntropyCoefficient(jnp.zeros(1))
    opt = nnx.Optimizer(alpha, optax.adam(learning_rate=1e-3), wrt=nnx.Param)
    actor = FreeActor(B)
    gdef, st = nnx.split((opt, actor, alpha))
    body = getattr(sac._update_entropy_coefficient, "__wrapped__")

    class Pol:
        def __init__(self, a):
            self.a = a

        def sample(self, obs, key):
            return jnp.zeros((B, 1))

        def log_probability(self, obs, act):
            return self.a.logp.value

    def f(state, target_entropy):
        o, a, al = nnx.merge(gdef, state)
        before = al()
        loss, after = body(o, Pol(a), target_entropy, jax.random.key(0), jnp.zeros((B, D)), al)
        return before, after, loss
    ex = (st, -1.0)
    e = E1(rep, sess, f, ex, "_update_entropy_coefficient(first Adam step)")
    leaves = {jax.tree_util.keystr(p): l for p, l in jax.tree_util.tree_leaves_with_path(e.ins[0])}
    # first step: optimizer moments are zero, step count zero
    for k, l in leaves.items():
        if "opt_state" in k and ("mu" in k or "nu" in k):
            e.add_hyp(S.SA(l).eq(0))
        if "count" in k or "step" in k:
            e.add_hyp(S.SA(l).eq(0))
    logp = S.SA([l for k, l in leaves.items() if "logp" in k][0])
    tgt = S.SA(e.ins[1])
    e.check_reachable()
    est = -(logp.mean())
    e.obligation("alpha-rises-when-entropy-estimate-is-below-target", lambda i, o: S.SA(o[1]) > S.SA(o[0]), extra_hyps=[est < tgt])
    e.obligation("alpha-falls-when-entropy-estimate-is-above-target", lambda i, o: S.SA(o[1]) < S.SA(o[0]), extra_hyps=[est > tgt])
    e.obligation("temperature-loss=-alpha*mean(logpi+target)", lambda i, o: S.close(S.SA(o[2]), -(S.SA(o[0]).reshape(()) * (logp + tgt).mean())))


def main(tier, seed):
    tp = tier_params(tier)
    rep = Report(PROP, tier, seed)
    sess = Session(tp["timeout"])
    sess.keep_smt2 = tier == "thorough"
    rep.bounds = {"batch": [1, 2, 3], "obs_dim": D, "action_dim": A, "discrete_actions": N_ACT, "ppo_samples": 3, "critic_output_shapes": ["(N,1)", "(N,)"]}
    rep.assumptions = ["real-number semantics", "mode P: forward outputs generalised to free reals (sound for unsat)",
                       "PPO: actor with free per-sample log-probabilities / entropies and a free-table critic (harness-owned); ppo_loss is the real code",
                       "temperature: first Adam step (zero moments), free per-sample log-probabilities; exp/sqrt axiomatised"]
    for C in VALUE_CASES:
        c = C()
        c.B_list = (2,) if tier == "quick" else (2, 3)
        run_case(rep, sess, c, tier, seed)
    _pg_gradients(rep, sess, tier, seed)
    _actor_gradients(rep, sess, tier, seed)
    _ppo(rep, sess, tier, seed)
    _ppo_update(rep, sess, tier, seed)
    _temperature(rep, sess, tier, seed)
    if tier == "thorough":
        bad = sess.cross_check()
        rep.extra["cvc5_disagreements"] = bad
        if bad:
            rep.inconclusive_("cross-check", f"{bad} z3/cvc5 disagreements")
    rep.add_queries(sess)
    rep.samples = [o["name"] for o in rep.obligations if o["kind"].startswith("obligation")][:12]
    return rep.finish()


def replay(path):
    import json
    print(json.dumps(json.load(open(path)), indent=1))
    return main("quick", 0)
