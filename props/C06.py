"""C06 Target networks follow the Polyak / hard-copy law, only at update points.
Law part: E1 on target_net.soft_target_net_update / hard_target_net_update for every module type."""
from __future__ import annotations

from fractions import Fraction

import jax
import jax.numpy as jnp
import numpy as np
import z3
from flax import nnx

from props import zoo
from props.common import E1, tier_params
from symcore import sarray as S
from symcore import values as V
from symcore.evidence import Report
from symcore.solver import Session
from props.e2common import E2Report
from props import loops as L
from props import loopworld as W
from e2_pysym import core as E

PROP = "C06"


def unjit(f):
    g = getattr(f, "fun", None)
    if g is None:
        g = getattr(f, "__wrapped__", None)
    if g is None:
        raise V.Unsupported("cannot reach the un-jitted body")
    return g


def leaves_with_names(tree):
    return [(jax.tree_util.keystr(p), l) for p, l in jax.tree_util.tree_leaves_with_path(tree)]


def main(tier, seed):
    from rl_blox.blox import target_net

    tp = tier_params(tier)
    e2rep = E2Report(PROP, tier, seed)
    rep = e2rep.r
    sess = Session(tp["timeout"])
    sess.keep_smt2 = tier == "thorough"
    modules = {
        "MLP": lambda s: zoo.mlp(2, 2, (2,), s),
        "LayerNormMLP": lambda s: zoo.ln_mlp(2, 1, (2,), s),
        "ContinuousClippedDoubleQNet": lambda s: zoo.double_q(2, 1, (2,), s),
        "DeterministicTanhPolicy": lambda s: zoo.tanh_policy(2, 1, (2,), s),
        "SALE": lambda s: zoo.sale(2, 1, 2, s),
        "DeterministicSALEPolicy": lambda s: zoo.sale_policy(2, 1, 2, s),
        "CriticSALE-double-Q": lambda s: zoo.sale_critic(2, 1, 2, s),
        "DeterministicPolicyWithEncoder": lambda s: zoo.encoder_policy(2, 1, s),
    }
    taus = [0.0, 0.005, 0.25, 1.0]
    rep.bounds = {"module_types": list(modules), "tau": "symbolic real in [0,1] (un-jitted body) and jitted with tau in " + str(taus),
                  "sizes": "2 inputs, hidden [2], 1-2 outputs; every leaf of nnx.state is an obligation"}
    rep.assumptions = ["real-number semantics", "both networks are passed as one pytree, so storage sharing between them would be visible",
                       "cadence: training loops run on the recording world of C01/C11 (bounded steps); nnx.clone is a recording stub that returns a fresh object "
                       "(flax's own no-aliasing guarantee for clone is trusted)"]
    soft_body = unjit(target_net.soft_target_net_update)

    for name, mk in modules.items():
        net, tgt = mk(seed), mk(seed + 10)
        gdef, st = nnx.split((net, tgt))

        def soft(state, tau, gdef=gdef):
            n, t = nnx.merge(gdef, state)
            soft_body(n, t, tau)
            return nnx.state((n, t))

        def hard(state, gdef=gdef):
            n, t = nnx.merge(gdef, state)
            target_net.hard_target_net_update(n, t)
            return nnx.state((n, t))
        e = E1(rep, sess, soft, (st, 0.25), f"soft_target_net_update[{name}]", validate_sets=[(st, 0.25)])
        tau = S.SA(e.ins[1])
        e.add_hyp(tau >= 0, tau <= 1)
        lin, lout = leaves_with_names(e.ins[0]), leaves_with_names(e.outs)
        assert [k for k, _ in lin] == [k for k, _ in lout], "state structure changed"
        n_leaf = len(lin) // 2
        online_in = [(k, l) for k, l in lin if k.startswith("[0]")]
        target_in = [(k, l) for k, l in lin if k.startswith("[1]")]
        rep.extra.setdefault("leaves_per_module", {})[name] = len(online_in)

        def law(i, o):
            li, lo = dict(leaves_with_names(i[0])), dict(leaves_with_names(o))
            t_ = S.SA(i[1])
            goals = []
            for k in li:
                if k.startswith("[0]"):
                    goals.append(S.close(S.SA(lo[k]), S.SA(li[k])))  # online unchanged
                    kt = "[1]" + k[3:]
                    goals.append(S.close(S.SA(lo[kt]), t_ * S.SA(li[k]) + (1 - t_) * S.SA(li[kt])))
            return goals
        e.obligation("every-target-leaf=tau*online+(1-tau)*target;online-unchanged", law)
        e.obligation("tau=1-is-a-hard-copy", lambda i, o: [S.close(S.SA(dict(leaves_with_names(o))["[1]" + k[3:]]), S.SA(l)) for k, l in leaves_with_names(i[0]) if k.startswith("[0]")],
                     extra_hyps=[tau.eq(1)])
        e.obligation("tau=0-is-a-no-op", lambda i, o: [S.close(S.SA(a), S.SA(b)) for (_, a), (_, b) in zip(leaves_with_names(o), leaves_with_names(i[0]))],
                     extra_hyps=[tau.eq(0)])
        # jitted entry point with concrete taus (the static-argument path the algorithms use)
        for tv in (taus if tier == "thorough" else [0.005, 1.0]):
            def softj(state, gdef=gdef, tv=tv):
                n, t = nnx.merge(gdef, state)
                target_net.soft_target_net_update(n, t, tv)
                return nnx.state((n, t))
            ej = E1(rep, sess, softj, (st,), f"soft_target_net_update.jit[{name},tau={tv}]")

            def lawj(i, o, tv=tv):
                li, lo = dict(leaves_with_names(i[0])), dict(leaves_with_names(o))
                t_ = Fraction(tv)
                goals = []
                for k in li:
                    if k.startswith("[0]"):
                        goals.append(S.close(S.SA(lo[k]), S.SA(li[k])))
                        kt = "[1]" + k[3:]
                        # (1 - tau) is evaluated by the program in floating point: compare with the same constant
                        want = t_ * S.SA(li[k]) + (1 - t_) * S.SA(li[kt])
                        if S.MODE.numeric:
                            goals.append(S.close(S.SA(lo[kt]), want))
                        else:  # tau and 1-tau are float32 literals inside the jitted program: allow their representation error
                            slack = Fraction(1, 10**6) * (abs(S.SA(li[k])) + abs(S.SA(li[kt])))
                            goals.append((S.SA(lo[kt]) - want <= slack) & (want - S.SA(lo[kt]) <= slack))
                return goals
            ej.obligation("polyak-law", lawj)
        eh = E1(rep, sess, hard, (st,), f"hard_target_net_update[{name}]", validate_sets=[(st,)])

        def hard_law(i, o):
            li, lo = dict(leaves_with_names(i[0])), dict(leaves_with_names(o))
            goals = []
            for k in li:
                if k.startswith("[0]"):
                    goals.append(S.close(S.SA(lo[k]), S.SA(li[k])))
                    goals.append(S.close(S.SA(lo["[1]" + k[3:]]), S.SA(li[k])))
            return goals
        eh.obligation("target=online;online-unchanged", hard_law)

    if tier == "thorough":
        bad = sess.cross_check()
        rep.extra["cvc5_disagreements"] = bad
        if bad:
            rep.inconclusive_("cross-check", f"{bad} z3/cvc5 disagreements")
    rep.add_queries(sess)
    rep.samples = [o["name"] for o in rep.obligations if o["kind"].startswith("obligation")][:12]
    _cadence(e2rep, tier)
    return e2rep.finish()


def _events_at(tr, name):
    d = {}
    for (kind, at, p) in tr.w.of(name):
        d.setdefault(at, []).append(p)
    return d


def _is(a, b):
    return a is b


def _cadence(rep, tier):
    Ks = [2, 3] if tier == "quick" else [2, 3, 4]
    rep.r.bounds["cadence"] = {"steps_K": Ks, "global_step": [0, 2], "symbolic": "flags, learning_starts, batch_size, target/policy delays in [1,3]"}

    def dqn_prog(which, K, start):
        def prog(ctx):
            tr = L.run_dqn_family(ctx, which, K, start, symbolic=("batch_size", "target_update_frequency", "update_frequency"))
            ev = _events_at(tr, "hard_target_net_update")
            f, bs = tr.cfg["target_update_frequency"], tr.cfg["batch_size"]
            tgt = tr.result.q_target_net
            ctx.check(tgt is not tr.cfg["q"], "target-network-shares-no-storage-with-the-online-network(distinct clone)")
            ctx.check(any(p["src"] is tr.cfg["q"] and p["dst"] is tgt for (_, _, p) in tr.w.of("clone")), "target-network-is-a-clone-of-the-online-network")
            for k in range(1, tr.env.n_steps + 1):
                s_ = tr.loop_step_of(k)
                want = (s_ > bs) & ((s_ % f) == 0)
                got = len(ev.get(k, []))
                ctx.check((got == 1) == want, "hard-update-exactly-at-steps>batch_size-that-are-multiples-of-the-target-frequency")
                ctx.check(got <= 1, "at-most-one-target-update-per-step")
                for p in ev.get(k, []):
                    ctx.check(p["args"][0] is tr.cfg["q"] and p["args"][1] is tgt, "hard-update-copies-online->target")
        return prog
    for which in ("nature_dqn", "ddqn", "per"):
        for K in Ks:
            for start in (0, 2):
                rep.run(f"cadence:train_{which}[K={K},global_step={start}]", dqn_prog(which, K, start), fn=f"rl_blox.algorithm.{which}", site_of=lambda label, which=which: f"train_{which}:{label}")

    def cont_prog(which, K, start):
        def prog(ctx):
            tr = L.run_continuous(ctx, which, K, start, symbolic=("learning_starts", "policy_delay", "target_network_delay"))
            ev = _events_at(tr, "soft_target_net_update")
            ls = tr.cfg["learning_starts"]
            pol, q = tr.cfg["policy"], tr.cfg["q"]
            qt, pt = tr.cfg["q_target"], tr.cfg["policy_target"]
            ctx.check(qt is not q, "target-network-shares-no-storage-with-the-online-network(distinct clone)")
            ctx.check(any(p["src"] is q and p["dst"] is qt for (_, _, p) in tr.w.of("clone")), "target-network-is-a-clone-of-the-online-network")
            if which != "sac":
                ctx.check(pt is not pol and any(p["src"] is pol and p["dst"] is pt for (_, _, p) in tr.w.of("clone")), "target-policy-is-a-distinct-clone")
            for k in range(1, tr.env.n_steps + 1):
                s_ = tr.loop_step_of(k)
                if which == "ddpg":
                    want, n_want = (s_ >= ls), 2
                elif which in ("td3", "td3_lap"):
                    want, n_want = (s_ >= ls) & ((s_ % tr.cfg["policy_delay"]) == 0), 2
                else:
                    want, n_want = (s_ >= ls) & ((s_ % tr.cfg["target_network_delay"]) == 0), 1
                got = ev.get(k, [])
                ctx.check((len(got) == n_want) == want, "soft-updates-exactly-at-the-documented-update-points")
                ctx.check((len(got) == 0) | (len(got) == n_want), "no-partial-target-update")
                pairs = [(p["args"][0], p["args"][1]) for p in got]
                for (a, b) in pairs:
                    ctx.check((a is q and b is qt) or (a is pol and b is pt), "soft-update-goes-online->its-own-target")
                for p in got:
                    ctx.check(p["args"][2] == tr.cfg["tau"], "soft-update-uses-the-configured-tau")
        return prog
    for which in ("ddpg", "td3", "td3_lap", "sac"):
        for K in Ks:
            rep.run(f"cadence:train_{which}[K={K}]", cont_prog(which, K, 0), fn=f"rl_blox.algorithm.{which}", site_of=lambda label, which=which: f"train_{which}:{label}")

    def td7_prog(K):
        def prog(ctx):
            tr = L.run_td7(ctx, K, 0, symbolic=("learning_starts", "target_delay"), use_checkpoints=False)
            hard = _events_at(tr, "hard_target_net_update")
            its = tr.w.of("train_iteration")
            td = tr.cfg["target_delay"]
            for (_, at, p) in its:
                pass
            # every train iteration with epoch % target_delay == 0 performs exactly the four documented copies; others none
            by_at = {}
            for (_, at, p) in its:
                by_at.setdefault(at, []).append(p["epoch"])
            for at, epochs in by_at.items():
                n_due = 0
                for ep in epochs:
                    due = (ep % td) == 0
                    n_due = n_due + (E.wrap(E.z3.If(E.as_z3_bool(due), 4, 0)) if not isinstance(due, bool) else (4 if due else 0))
                ctx.check(len(hard.get(at, [])) == n_due, "td7:hard-updates-exactly-when-epoch-is-a-multiple-of-target_delay")
            for at, lst in hard.items():
                ctx.check(at in by_at, "td7:targets-change-only-inside-train-iterations")
            res = tr.result
            ctx.check(res.fixed_embedding is not tr.cfg["embedding"] and res.fixed_embedding_target is not tr.cfg["embedding"] and res.fixed_embedding is not res.fixed_embedding_target,
                      "td7:fixed-embeddings-are-distinct-clones")
            ctx.check(res.actor_target is not tr.cfg["actor"] and res.critic_target is not tr.cfg["critic"], "td7:targets-are-distinct-clones")
            for at, lst in hard.items():
                for j in range(0, len(lst), 4):
                    grp = lst[j:j + 4]
                    if len(grp) == 4:
                        srcs = [g["args"][0] for g in grp]
                        dsts = [g["args"][1] for g in grp]
                        ctx.check(srcs[0] is tr.cfg["actor"] and dsts[0] is res.actor_target, "td7:actor->actor_target")
                        ctx.check(srcs[1] is tr.cfg["critic"] and dsts[1] is res.critic_target, "td7:critic->critic_target")
                        ctx.check(srcs[2] is res.fixed_embedding and dsts[2] is res.fixed_embedding_target, "td7:fixed_embedding->fixed_embedding_target")
                        ctx.check(srcs[3] is tr.cfg["embedding"] and dsts[3] is res.fixed_embedding, "td7:embedding->fixed_embedding")
        return prog
    def td7_ckpt_prog(ctx):
        made = []
        orig_init = L.SalePolicyStub.__init__

        def rec_init(self_, embedding, actor):
            orig_init(self_, embedding, actor)
            made.append(self_)
        L.SalePolicyStub.__init__ = rec_init
        try:
            tr = L.run_td7(ctx, 2, 0, symbolic=(), use_checkpoints=True)
        finally:
            L.SalePolicyStub.__init__ = orig_init
        ctx.check(len(made) == 3, "td7:policy,target-policy-and-checkpoint-are-built")
        embs = [m.embedding for m in made] + [tr.cfg["embedding"]]
        acts = [m.actor for m in made]
        for i in range(len(embs)):
            for j in range(i + 1, len(embs)):
                ctx.check(embs[i] is not embs[j], "td7:fixed-embeddings-and-checkpoint-embedding-share-no-storage")
        for i in range(len(acts)):
            for j in range(i + 1, len(acts)):
                ctx.check(acts[i] is not acts[j], "td7:actor,target-actor-and-checkpoint-actor-share-no-storage")
        clones = {id(p["dst"]): p["src"] for (_, _, p) in tr.w.of("clone")}
        for m in made:
            ctx.check(clones.get(id(m.embedding)) is tr.cfg["embedding"], "td7:every-fixed/checkpoint-embedding-is-a-clone-of-the-online-embedding")
    rep.run("td7:checkpoint-and-fixed-copies-are-distinct-clones", td7_ckpt_prog, fn="rl_blox.algorithm.td7.train_td7 (use_checkpoints=True)", site_of=lambda label: f"train_td7:{label}")
    for K in Ks:
        rep.run(f"cadence:train_td7[K={K}]", td7_prog(K), fn="rl_blox.algorithm.td7.train_td7/_train_step", site_of=lambda label: f"train_td7:{label}")

    def mrq_prog(K):
        def prog(ctx):
            tr = L.run_mrq(ctx, K, 0, symbolic=("learning_starts", "target_delay"))
            hard = _events_at(tr, "hard_target_net_update")
            ls, td = tr.cfg["learning_starts"], tr.cfg["target_delay"]
            pwe, q = tr.cfg["policy_with_encoder"], tr.cfg["q"]
            pt, qt = tr.cfg["policy_with_encoder_target"], tr.cfg["q_target"]
            ctx.check(pt is not pwe and qt is not q, "target-network-shares-no-storage-with-the-online-network(distinct clone)")
            epoch = 0
            for k in range(1, tr.env.n_steps + 1):
                s_ = tr.loop_step_of(k)
                trained = s_ >= ls
                epoch = epoch + (E.wrap(E.z3.If(E.as_z3_bool(trained), 1, 0)) if not isinstance(trained, bool) else int(trained))
                want = trained & ((epoch % td) == 0)
                got = hard.get(k, [])
                ctx.check((len(got) == 2) == want, "mrq:hard-updates-exactly-every-target_delay-training-epochs")
                ctx.check((len(got) == 0) | (len(got) == 2), "no-partial-target-update")
                for p in got:
                    a, b = p["args"][0], p["args"][1]
                    ctx.check((a is pwe and b is pt) or (a is q and b is qt), "hard-update-copies-online->target")
        return prog
    for K in Ks:
        rep.run(f"cadence:train_mrq[K={K}]", mrq_prog(K), fn="rl_blox.algorithm.mrq.train_mrq", site_of=lambda label: f"train_mrq:{label}")


def replay(path):
    import json
    print(json.dumps(json.load(open(path)), indent=1))
    return main("quick", 0)
