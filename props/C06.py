"""C06 Target networks follow the Polyak / hard-copy law, only at update points.
Law part: E1 on target_net.soft_target_net_update / hard_target_net_update for every module type."""
from __future__ import annotations

from fractions import Fraction

import jax
import jax.numpy as jnp
import numpy as np
import z3
from flax import nnx

from props import zoo
from props.common import E1, tier_params
from symcore import sarray as S
from symcore import values as V
from symcore.evidence import Report
from symcore.solver import Session

PROP = "C06"


def unjit(f):
    g = getattr(f, "fun", None)
    if g is None:
        g = getattr(f, "__wrapped__", None)
    if g is None:
        raise V.Unsupported("cannot reach the un-jitted body")
    return g


def leaves_with_names(tree):
    return [(jax.tree_util.keystr(p), l) for p, l in jax.tree_util.tree_leaves_with_path(tree)]


def main(tier, seed):
    from rl_blox.blox import target_net

    tp = tier_params(tier)
    rep = Report(PROP, tier, seed)
    sess = Session(tp["timeout"])
    sess.keep_smt2 = tier == "thorough"
    modules = {
        "MLP": lambda s: zoo.mlp(2, 2, (2,), s),
        "LayerNormMLP": lambda s: zoo.ln_mlp(2, 1, (2,), s),
        "ContinuousClippedDoubleQNet": lambda s: zoo.double_q(2, 1, (2,), s),
        "DeterministicTanhPolicy": lambda s: zoo.tanh_policy(2, 1, (2,), s),
        "SALE": lambda s: zoo.sale(2, 1, 2, s),
        "DeterministicSALEPolicy": lambda s: zoo.sale_policy(2, 1, 2, s),
        "CriticSALE-double-Q": lambda s: zoo.sale_critic(2, 1, 2, s),
        "DeterministicPolicyWithEncoder": lambda s: zoo.encoder_policy(2, 1, s),
    }
    taus = [0.0, 0.005, 0.25, 1.0]
    rep.bounds = {"module_types": list(modules), "tau": "symbolic real in [0,1] (un-jitted body) and jitted with tau in " + str(taus),
                  "sizes": "2 inputs, hidden [2], 1-2 outputs; every leaf of nnx.state is an obligation"}
    rep.assumptions = ["real-number semantics", "both networks are passed as one pytree, so storage sharing between them would be visible",
                       "cadence (updates only at the documented steps) and clone-independence in training loops are NOT covered by this check yet"]
    soft_body = unjit(target_net.soft_target_net_update)

    for name, mk in modules.items():
        net, tgt = mk(seed), mk(seed + 10)
        gdef, st = nnx.split((net, tgt))

        def soft(state, tau, gdef=gdef):
            n, t = nnx.merge(gdef, state)
            soft_body(n, t, tau)
            return nnx.state((n, t))

        def hard(state, gdef=gdef):
            n, t = nnx.merge(gdef, state)
            target_net.hard_target_net_update(n, t)
            return nnx.state((n, t))
        e = E1(rep, sess, soft, (st, 0.25), f"soft_target_net_update[{name}]", validate_sets=[(st, 0.25)])
        tau = S.SA(e.ins[1])
        e.add_hyp(tau >= 0, tau <= 1)
        lin, lout = leaves_with_names(e.ins[0]), leaves_with_names(e.outs)
        assert [k for k, _ in lin] == [k for k, _ in lout], "state structure changed"
        n_leaf = len(lin) // 2
        online_in = [(k, l) for k, l in lin if k.startswith("[0]")]
        target_in = [(k, l) for k, l in lin if k.startswith("[1]")]
        rep.extra.setdefault("leaves_per_module", {})[name] = len(online_in)

        def law(i, o):
            li, lo = dict(leaves_with_names(i[0])), dict(leaves_with_names(o))
            t_ = S.SA(i[1])
            goals = []
            for k in li:
                if k.startswith("[0]"):
                    goals.append(S.close(S.SA(lo[k]), S.SA(li[k])))  # online unchanged
                    kt = "[1]" + k[3:]
                    goals.append(S.close(S.SA(lo[kt]), t_ * S.SA(li[k]) + (1 - t_) * S.SA(li[kt])))
            return goals
        e.obligation("every-target-leaf=tau*online+(1-tau)*target;online-unchanged", law)
        e.obligation("tau=1-is-a-hard-copy", lambda i, o: [S.close(S.SA(dict(leaves_with_names(o))["[1]" + k[3:]]), S.SA(l)) for k, l in leaves_with_names(i[0]) if k.startswith("[0]")],
                     extra_hyps=[tau.eq(1)])
        e.obligation("tau=0-is-a-no-op", lambda i, o: [S.close(S.SA(a), S.SA(b)) for (_, a), (_, b) in zip(leaves_with_names(o), leaves_with_names(i[0]))],
                     extra_hyps=[tau.eq(0)])
        # jitted entry point with concrete taus (the static-argument path the algorithms use)
        for tv in (taus if tier == "thorough" else [0.005, 1.0]):
            def softj(state, gdef=gdef, tv=tv):
                n, t = nnx.merge(gdef, state)
                target_net.soft_target_net_update(n, t, tv)
                return nnx.state((n, t))
            ej = E1(rep, sess, softj, (st,), f"soft_target_net_update.jit[{name},tau={tv}]")

            def lawj(i, o, tv=tv):
                li, lo = dict(leaves_with_names(i[0])), dict(leaves_with_names(o))
                t_ = Fraction(tv)
                goals = []
                for k in li:
                    if k.startswith("[0]"):
                        goals.append(S.close(S.SA(lo[k]), S.SA(li[k])))
                        kt = "[1]" + k[3:]
                        # (1 - tau) is evaluated by the program in floating point: compare with the same constant
                        want = t_ * S.SA(li[k]) + (1 - t_) * S.SA(li[kt])
                        if S.MODE.numeric:
                            goals.append(S.close(S.SA(lo[kt]), want))
                        else:  # tau and 1-tau are float32 literals inside the jitted program: allow their representation error
                            slack = Fraction(1, 10**6) * (abs(S.SA(li[k])) + abs(S.SA(li[kt])))
                            goals.append((S.SA(lo[kt]) - want <= slack) & (want - S.SA(lo[kt]) <= slack))
                return goals
            ej.obligation("polyak-law", lawj)
        eh = E1(rep, sess, hard, (st,), f"hard_target_net_update[{name}]", validate_sets=[(st,)])

        def hard_law(i, o):
            li, lo = dict(leaves_with_names(i[0])), dict(leaves_with_names(o))
            goals = []
            for k in li:
                if k.startswith("[0]"):
                    goals.append(S.close(S.SA(lo[k]), S.SA(li[k])))
                    goals.append(S.close(S.SA(lo["[1]" + k[3:]]), S.SA(li[k])))
            return goals
        eh.obligation("target=online;online-unchanged", hard_law)

    if tier == "thorough":
        bad = sess.cross_check()
        rep.extra["cvc5_disagreements"] = bad
        if bad:
            rep.inconclusive_("cross-check", f"{bad} z3/cvc5 disagreements")
    rep.add_queries(sess)
    rep.samples = [o["name"] for o in rep.obligations if o["kind"].startswith("obligation")][:12]
    return rep.finish()


def replay(path):
    import json
    print(json.dumps(json.load(open(path)), indent=1))
    return main("quick", 0)
