"""F-LOSS: mode P (all parameters, forward outputs generalised) / mode C (seeded concrete
networks and observations, symbolic rewards / flags / scalars) harness for loss functions."""
from __future__ import annotations

import itertools
from fractions import Fraction

import jax
import jax.numpy as jnp
import numpy as np
import z3
from flax import nnx

from props.common import E1, apply_pairs, generalise, leftover_symbols, z3_vars_of
from symcore import sarray as S
from symcore import values as V


class LossCase:
    """Description of one loss under test.

    build(seed) -> (modules tuple)
    fn(gdef) -> f(state, *data) -> (loss_out_tree, exports dict name->array)
    data(B, rng) -> tuple of example data arrays (in the order of f's arguments after state)
    spec(data_ins, exports) -> loss_out_tree of SA (same structure as loss_out_tree)
    hyps(data_ins) -> list of hypotheses
    concrete_in_C: indices (into data) that are made concrete in mode C (observations, actions)
    batch_args: indices (into data) that carry the batch on axis 0
    term_index: index (into data) of the terminated flags
    bootstrap: names of exports that are bootstrap quantities (must not matter for terminated rows)
    per_sample_out: function(loss_out_tree)-> list of per-sample arrays (permute with the batch) (optional)
    grad(gdef) -> g(state, *data) -> pytree of gradients that must be identically zero (optional)
    """

    site = "?"
    concrete_in_C = ()
    batch_args = ()
    term_index = None
    bootstrap = ()
    B_list = (2, 3)

    def per_sample_out(self, out):
        return []

    def scalar_out(self, out):
        return [l for l in jax.tree_util.tree_leaves(out) if np.asarray(l, dtype=object).ndim == 0]

    grad = None

    def cases(self, data_ins):
        return None

    def out_names(self):
        return ["loss", "q_mean"]

    def term_hyp(self, term, row):
        t = term[row]
        if t.ndim == 0:
            return t.eq(1).item()
        acc = False
        for h in range(t.shape[0]):
            acc = V.s_or(acc, t[h].eq(1).item())
        return acc


def _tree_close(a, b):
    la, lb = jax.tree_util.tree_leaves(a), jax.tree_util.tree_leaves(b)
    la = [x for x in la]
    goals = []
    fa = _flatten_sa(a)
    fb = _flatten_sa(b)
    if len(fa) != len(fb):
        raise V.Unsupported(f"spec/impl output structure differs: {len(fa)} vs {len(fb)}")
    for x, y in zip(fa, fb):
        goals.append(S.close(x, y))
    return goals


def _to_sa_tree(t):
    if isinstance(t, (tuple, list)):
        return tuple(_to_sa_tree(x) for x in t)
    return S.SA(t)


def _flatten_sa(t):
    out = []
    if isinstance(t, S.SA):
        return [t]
    if isinstance(t, (tuple, list)):
        for x in t:
            out.extend(_flatten_sa(x))
        return out
    if isinstance(t, dict):
        for k in sorted(t):
            out.extend(_flatten_sa(t[k]))
        return out
    return [S.SA(t)]


def run_case(rep, sess, case: LossCase, tier, seed, n_seeds_c=None):
    n_seeds_c = n_seeds_c or (2 if tier == "quick" else 5)
    for B in case.B_list:
        status = _attempt(rep, sess, case, B, "P", seed, tier)
        if status == "ok" or status == "violation":
            continue
        # mode P did not settle it: look for a concrete counterexample with seeded networks
        found = False
        pend = list(status)
        for k in range(n_seeds_c):
            st = _attempt(rep, sess, case, B, "C", seed + 1 + k, tier)
            if st == "violation":
                found = True
                break
            if st != "ok":
                pend.extend(st)
        if not found:
            for site, why in pend:
                rep.inconclusive_(site, why)
    if getattr(case, "b1", True):
        _batch_one(rep, sess, case, seed)


def _mk(case, B, seed):
    mods = case.build(seed)
    gdef, st = nnx.split(mods)
    rng = np.random.default_rng(seed)
    data = case.data(B, rng)
    return gdef, st, data


def _attempt(rep, sess, case, B, mode, seed, tier):
    gdef, st, data = _mk(case, B, seed)
    f = case.fn(gdef)
    site = f"{case.site}[B={B},mode={mode}" + (f",seed={seed}]" if mode == "C" else "]")

    def overrides(ins):
        if mode == "P":
            return ins
        ins = list(ins)
        ins[0] = st  # concrete parameters (exact rationals of the float32 values)
        for k in case.concrete_in_C:
            ins[1 + k] = data[k]
        return tuple(ins)
    sub_pairs = {}

    def post(ins, outs):
        loss_out, exports = outs
        if mode == "C":
            return outs
        gen, fresh, pairs = generalise(loss_out, exports)
        sub_pairs["pairs"] = pairs
        return (gen, fresh)
    ex = (st,) + tuple(data)
    import time as _t
    t0 = _t.time()
    e = E1(rep, sess, f, ex, site, overrides=overrides, post=post, soft=True,
           validate_sets=[ex] if mode == "P" else None, numeric_consts=(mode == "C"))
    rep.extra.setdefault("encode_s", {})[site] = round(_t.time() - t0, 2)
    data_ins = e.ins[1:]
    e.add_hyp(*case.hyps(data_ins))
    e.check_reachable()
    results = []

    if mode == "P":
        gen_out0, fresh0 = e.outs
        allowed0 = {v.get_id() for v in z3_vars_of(list(data_ins))} | {v.get_id() for v in z3_vars_of(list(fresh0.values()))}
        left0 = {x for x in leftover_symbols(gen_out0, allowed0) if not (x.startswith('oob!') or x.startswith('div0!') or 'oob!' in x)}
        if left0:
            # the loss evaluates forward passes other than the documented ones (network symbols survive the generalisation):
            # nothing can be proved for all parameters; look for a concrete counterexample with seeded networks (mode C)
            rep.extra.setdefault("generalisation", {})[site] = {"network_symbols_left_in_loss": len(left0)}
            sess.queries.append(__import__("symcore.solver", fromlist=["Query"]).Query(f"{site}:loss-uses-only-the-documented-forward-passes", "unknown", 0.0, None, 0, "obligation"))
            sess.queries[-1]._smt2 = None
            return [(site, f"{len(left0)} network symbols survive generalisation: the loss does not use exactly the documented forward passes")]

    # (a) value and auxiliary outputs equal the documented formula (one obligation per output)
    names = case.out_names()

    def eq_spec_k(k):
        def pred(i, o):
            impl = _flatten_sa(_to_sa_tree(o[0]))
            spec = _flatten_sa(case.spec(i[1:], {kk: S.SA(v) for kk, v in o[1].items()}))
            if len(impl) != len(spec):
                raise V.Unsupported(f"spec/impl output structure differs: {len(impl)} vs {len(spec)}")
            return S.close(impl[k], spec[k])
        return pred
    n_out = len(_flatten_sa(_to_sa_tree(e.outs[0])))
    for k in range(n_out):
        nm = names[k] if k < len(names) else f"out{k}"
        results.append(e.obligation(f"{nm}=documented-formula", eq_spec_k(k), site=f"{case.site}:{nm}",
                                    cases=case.cases(data_ins) if (mode == "P" and B >= 3) else None))

    if mode == "P":
        gen_out, fresh = e.outs
        allowed = {v.get_id() for v in z3_vars_of(list(data_ins))} | {v.get_id() for v in z3_vars_of(list(fresh.values()))}
        left = leftover_symbols(gen_out, allowed)
        rep.extra.setdefault("generalisation", {})[site] = {"fresh_vars": sum(int(np.asarray(v).size) for v in fresh.values()),
                                                             "network_symbols_left_in_loss": len(left)}
        # (b) terminated rows: bootstrap quantities do not matter (two-copy on the generalised loss)
        if case.term_index is not None and case.bootstrap:
            term = S.SA(data_ins[case.term_index])
            for row in range(B):
                pairs = []
                for name in case.bootstrap:
                    arr = np.asarray(fresh[name], dtype=object)
                    for idx in np.ndindex(*arr.shape[1:]) if arr.ndim > 1 else [()]:
                        v = arr[(row,) + idx]
                        if isinstance(v, z3.ExprRef):
                            pairs.append((v, z3.Real(str(v) + "_alt")))
                if not pairs:
                    continue
                goals = []
                for leaf in jax.tree_util.tree_leaves(gen_out):
                    for el in np.asarray(leaf, dtype=object).reshape(-1):
                        if isinstance(el, z3.ExprRef):
                            goals.append(V.s_cmp("eq", el, z3.substitute(el, *pairs)))
                g = True
                for x in goals:
                    g = V.s_and(g, x)
                q = sess.prove(f"{site}:terminated-row{row}-ignores-bootstrap(2-copy)", e.hyps + [V.to_z3(case.term_hyp(term, row))], g)
                results.append(True if q.verdict == "unsat" else None)
                if q.verdict != "unsat":
                    e.pending.append((f"{site}:terminated-row{row}", f"{q.verdict}"))
        # (c) batch permutation
        perms = [tuple(list(range(1, B)) + [0])] + ([(1, 0) + tuple(range(2, B))] if B > 2 else [])
        for perm in perms:
            insP = list(e.ins)
            for k in case.batch_args:
                insP[1 + k] = np.asarray(e.ins[1 + k], dtype=object)[list(perm)]
            from e1_jaxpr.interp import Ctx
            ctxP = Ctx()
            # key-determined noise is assigned per batch position: it moves with its row
            for k, arr in e.ctx.noise.items():
                ctxP.noise[k] = arr[list(perm)] if (arr.ndim >= 1 and arr.shape[0] == B) else arr
            outsP, ctxP = e.tr.run(tuple(insP), ctxP)
            lossP, exportsP = outsP
            # the forward outputs of the permuted batch are the same terms in permuted order: same substitution
            genP = apply_pairs(lossP, sub_pairs["pairs"])
            goals = []
            for x, y in zip(case.scalar_out(gen_out), case.scalar_out(genP)):
                goals.append(V.s_cmp("eq", np.asarray(x, dtype=object)[()], np.asarray(y, dtype=object)[()]))
            for x, y in zip(case.per_sample_out(gen_out), case.per_sample_out(genP)):
                x, y = np.asarray(x, dtype=object), np.asarray(y, dtype=object)
                for i in range(B):
                    goals.append(V.s_cmp("eq", x[perm[i]], y[i]))
            g = True
            for x in goals:
                g = V.s_and(g, x)
            q = sess.prove(f"{site}:batch-order-invariance[perm={perm}]", e.hyps, g)
            results.append(True if q.verdict == "unsat" else None)
            if q.verdict != "unsat":
                e.pending.append((f"{site}:batch-order-invariance", q.verdict))
        # (d) gradients w.r.t. target networks / bootstrap inputs are identically zero
        if case.grad is not None:
            gfn = case.grad(gdef)
            eg = E1(rep, sess, gfn, ex, f"{case.site}.grad[B={B}]", soft=True)
            eg.add_hyp(*case.hyps(eg.ins[1:]))
            r = eg.obligation("gradient-wrt-targets-and-bootstrap-inputs-is-zero",
                              lambda i, o: [S.SA(l).eq(0) for l in jax.tree_util.tree_leaves(o)], site=f"{case.site}:zero-gradient-to-targets")
            results.append(r)
            e.pending.extend(eg.pending)

    if any(r is False for r in results):
        return "violation"
    if all(r is True for r in results):
        return "ok"
    return e.pending or [(site, "not settled")]


def _batch_one(rep, sess, case, seed):
    """Batch size 1: either a loud rejection or the same per-sample value."""
    gdef, st, data = _mk(case, 1, seed)
    f = case.fn(gdef)
    site = f"{case.site}[B=1]"
    try:
        jax.make_jaxpr(f)(st, *data)
    except Exception as ex:
        rep.extra.setdefault("batch_size_1", {})[case.site] = f"rejected loudly: {type(ex).__name__}"
        return
    rep.extra.setdefault("batch_size_1", {})[case.site] = "accepted; checked against the per-sample formula"

    def post(ins, outs):
        gen, fresh, _ = generalise(outs[0], outs[1])
        return (gen, fresh)
    e = E1(rep, sess, f, (st,) + tuple(data), site, post=post)
    e.add_hyp(*case.hyps(e.ins[1:]))
    try:
        e.obligation("same-per-sample-value-as-larger-batches",
                     lambda i, o: _tree_close(_to_sa_tree(o[0]), case.spec(i[1:], {k: S.SA(v) for k, v in o[1].items()})), site=f"{case.site}:batch-size-1")
    except V.Unsupported as ex:
        # the reference formula cannot even be formed for the shapes the code produced: silently different shape
        rep.inconclusive_(site, f"spec/impl shape mismatch at batch size 1: {ex}")
