"""C05 Each update routine changes only the component it trains (F-UPD, E1)."""
from __future__ import annotations

from collections import namedtuple
from fractions import Fraction

import jax
import jax.numpy as jnp
import numpy as np
import optax
import z3
from flax import nnx

from props import zoo
from props.C03 import A, D, N_ACT, batch_data, f32
from props.common import E1, apply_pairs, generalise, tier_params
from symcore import sarray as S
from symcore import values as V
from symcore.evidence import Report
from symcore.solver import Session

PROP = "C05"
LR = 0.5


def sgd(m):
    return nnx.Optimizer(m, optax.sgd(LR), wrt=nnx.Param)


def adam(m):
    return nnx.Optimizer(m, optax.adam(1e-2), wrt=nnx.Param)


def unj(f):
    return getattr(f, "__wrapped__", f)


def leaves(tree):
    return [(jax.tree_util.keystr(p), l) for p, l in jax.tree_util.tree_leaves_with_path(tree)]


def mod_index(key):
    return int(key.split("]")[0][1:])


class Case:
    """names: labels of the modules tuple; trained: indices whose leaves may change (module + its optimizer);
    check_grad: {module index -> name in returned reference gradients}"""

    def __init__(self, site, build, data, call, trained, ref=None, opt_of=None):
        self.site, self.build, self.data, self.call, self.trained, self.ref, self.opt_of = site, build, data, call, trained, ref, opt_of or {}


def run_update_case(rep, sess, c: Case, seed, tier):
    mods, names = c.build(seed)
    gdef, st = nnx.split(mods)
    rng = np.random.default_rng(seed)
    data = c.data(rng)

    def f(state, *d):
        ms = nnx.merge(gdef, state)
        ref = c.ref(ms, *d) if c.ref else None
        c.call(ms, *d)
        return nnx.state(ms), ref
    ex = (st,) + tuple(data)
    e = E1(rep, sess, f, ex, c.site, validate_sets=[ex])
    before = dict(leaves(e.ins[0]))
    after = dict(leaves(e.outs[0]))
    assert set(before) == set(after), "state structure changed"
    n_unch = n_tr = 0
    changed_trained = False
    for k in before:
        i = mod_index(k)
        b, a = np.asarray(before[k], dtype=object), np.asarray(after[k], dtype=object)
        if i in c.trained:
            if "action_scale" in k or "action_bias" in k:
                # the squashing constants of a tanh policy head encode the action box (C10): they belong to the trained
                # module but are not learnable, no update routine may move them
                def box_const(ins, outs, k=k):
                    return S.close(S.SA(dict(leaves(outs[0]))[k]), S.SA(dict(leaves(ins[0]))[k]))
                e.obligation(f"{names[i]}{k[k.index(']') + 1:]}:action-box-constants-unchanged", box_const, site=f"{c.site}:action-box-constants-of-the-policy-head-are-not-trained")
                continue
            n_tr += 1
            if any(not V.s_eq_struct(x, y) for x, y in zip(b.reshape(-1), a.reshape(-1))):
                changed_trained = True
            continue
        n_unch += 1

        def unchanged(ins, outs, k=k):
            return S.close(S.SA(dict(leaves(outs[0]))[k]), S.SA(dict(leaves(ins[0]))[k]))
        e.obligation(f"{names[i]}{k[k.index(']') + 1:]}:unchanged", unchanged, site=f"{c.site}:leaves-of-untrained-components-unchanged[{names[i]}]")
    rep.extra.setdefault("leaves", {})[c.site] = {"must_stay": n_unch, "may_change": n_tr}
    if c.trained and not changed_trained:
        # replay on the real code: does any trained parameter move for the seeded example?
        from e1_jaxpr.trace import fresh_copy
        out_state, _ = f(*fresh_copy(ex))
        ob, oa = dict(leaves(ex[0])), dict(leaves(out_state))
        moved = any(mod_index(k) in c.trained and not np.array_equal(np.asarray(ob[k]), np.asarray(oa[k])) for k in ob)
        rep.replayed += 1
        if not moved:
            rep.violation(f"{c.site}:trained-component-changes", "the update leaves every parameter of the component it is documented to train unchanged", {"site": c.site})
        else:
            rep.inconclusive_(f"{c.site}:trained-component-changes", "symbolically unchanged but the real run moved")
    # trained parameters move by -lr * (gradient of the documented loss): SGD makes 'a non-zero gradient changes the component' exact
    if c.ref is not None:
        ref = e.outs[1]
        for mi, grads in ref.items():
            gl = dict(leaves(grads))
            goals = []
            for kk in gl:
                full = f"[{mi}]" + kk
                if full not in after:
                    continue
                goals.append(S.close(S.SA(after[full]), S.SA(before[full]) - Fraction(LR) * S.SA(gl[kk])))
            g = S.conj(goals)
            q = sess.prove(f"{c.site}:{names[mi]}-moves-by-lr*gradient-of-the-documented-loss(SGD)", e.hyps, g)
            if q.verdict != "unsat":
                # second attempt: generalise the gradient leaves to fresh reals (linear obligation)
                exports = {f"g{j}": l for j, (kk, l) in enumerate(gl.items())}
                targets = {kk: after[f"[{mi}]" + kk] for kk in gl if f"[{mi}]" + kk in after}
                gen, fresh, pairs = generalise(targets, exports, prefix=f"G{mi}")
                goals = [S.close(S.SA(gen[kk]), S.SA(before[f"[{mi}]" + kk]) - Fraction(LR) * S.SA(fresh[f"g{j}"])) for j, kk in enumerate(gl) if f"[{mi}]" + kk in after]
                q2 = sess.prove(f"{c.site}:{names[mi]}-moves-by-lr*gradient(generalised)", e.hyps, S.conj(goals))
                if q2.verdict == "unsat":
                    q = q2
            if q.verdict == "sat":
                # replay: real run, compare parameter delta with -lr * reference gradient
                from e1_jaxpr.trace import fresh_copy
                out_state, ref_c = f(*fresh_copy(ex))
                ok = True
                ob, oa = dict(leaves(ex[0])), dict(leaves(out_state))
                for kk, gval in leaves(ref_c[mi]):
                    full = f"[{mi}]" + kk
                    if full in oa and not np.allclose(np.asarray(oa[full]), np.asarray(ob[full]) - LR * np.asarray(gval), rtol=1e-3, atol=1e-5):
                        ok = False
                rep.replayed += 1
                if not ok:
                    rep.violation(f"{c.site}:trained-component-follows-its-gradient", f"{names[mi]} is not updated with the gradient of the documented loss", {"site": c.site})
                else:
                    rep.inconclusive_(f"{c.site}:gradient-step", "model did not reproduce")
            elif q.verdict == "unknown":
                rep.inconclusive_(f"{c.site}:gradient-step", "unknown")


# ------------------------------------------------------------------------------------------------ cases
def _batch(rng, discrete, B=2):
    return batch_data(B, rng, discrete)


def cases(seed):
    from rl_blox.algorithm import a2c, actor_critic, ddpg, dqn, mrq, ppo, reinforce, sac, td7
    from rl_blox.blox import losses
    from rl_blox.blox.embedding import model_based_encoder as mbe
    from rl_blox.blox.embedding import sale
    from rl_blox.blox.function_approximator.gaussian_mlp import GaussianMLP
    from rl_blox.blox.function_approximator.policy_head import GaussianTanhPolicy, SoftmaxPolicy
    out = []
    tswl = dqn.train_step_with_loss

    # --- critic updates through train_step_with_loss
    def b_dqn(s):
        q = zoo.mlp(D, N_ACT, (2,), s)
        return (q, sgd(q)), ["q", "q_optimizer"]
    out.append(Case("train_step_with_loss(dqn_loss)", b_dqn, lambda r: _batch(r, True) + (0.9,),
                    lambda m, *d: tswl(losses.dqn_loss, m[1], m[0], d[:5], d[5]), {0, 1},
                    ref=lambda m, *d: {0: nnx.grad(lambda q_: losses.dqn_loss(q_, d[:5], d[5])[0])(m[0])}))

    def b_q2(s):
        q, qt = zoo.mlp(D, N_ACT, (2,), s), zoo.mlp(D, N_ACT, (2,), s + 5)
        return (q, sgd(q), qt), ["q", "q_optimizer", "q_target"]
    for nm, lf in (("nature_dqn_loss", losses.nature_dqn_loss), ("ddqn_loss", losses.ddqn_loss)):
        out.append(Case(f"train_step_with_loss({nm})", b_q2, lambda r: _batch(r, True) + (0.9,),
                        lambda m, *d, lf=lf: tswl(lf, m[1], m[0], m[2], d[:5], d[5]), {0, 1},
                        ref=lambda m, *d, lf=lf: {0: nnx.value_and_grad(lf, argnums=0, has_aux=True)(m[0], m[2], d[:5], d[5])[1]}))
    out.append(Case("train_step_with_loss(ddqn_per_loss)", b_q2, lambda r: _batch(r, True) + (0.9, f32(r.random(2) + 0.1)),
                    lambda m, *d: tswl(losses.ddqn_per_loss, m[1], m[0], m[2], d[:5], d[5], d[6]), {0, 1},
                    ref=lambda m, *d: {0: nnx.value_and_grad(losses.ddqn_per_loss, argnums=0, has_aux=True)(m[0], m[2], d[:5], d[5], d[6])[1]}))

    def b_ddpg(s):
        q, qt, pt = zoo.mlp(D + A, 1, (2,), s), zoo.mlp(D + A, 1, (2,), s + 5), zoo.tanh_policy(D, A, (2,), s + 9)
        return (q, sgd(q), qt, pt), ["q", "q_optimizer", "q_target", "policy_target"]
    out.append(Case("train_step_with_loss(ddpg_loss)", b_ddpg, lambda r: _batch(r, False) + (0.9,),
                    lambda m, *d: tswl(losses.ddpg_loss, m[1], m[0], m[2], m[3], d[:5], d[5]), {0, 1},
                    ref=lambda m, *d: {0: nnx.grad(lambda q_, qt_, pt_: losses.ddpg_loss(q_, qt_, pt_, d[:5], d[5])[0])(m[0], m[2], m[3])}))

    def b_td3(s):
        q, qt = zoo.double_q(D, A, (2,), s), zoo.double_q(D, A, (2,), s + 5)
        return (q, sgd(q), qt), ["q", "q_optimizer", "q_target"]
    out.append(Case("train_step_with_loss(td3_loss)", b_td3, lambda r: _batch(r, False) + (0.9, f32(r.normal(size=(2, A)))),
                    lambda m, *d: tswl(losses.td3_loss, m[1], m[0], m[2], d[6], d[:5], d[5]), {0, 1},
                    ref=lambda m, *d: {0: nnx.grad(lambda q_, qt_: losses.td3_loss(q_, qt_, d[6], d[:5], d[5])[0])(m[0], m[2])}))
    out.append(Case("train_step_with_loss(td3_lap_loss)", b_td3, lambda r: _batch(r, False) + (0.9, f32(r.normal(size=(2, A))), 1.0),
                    lambda m, *d: tswl(losses.td3_lap_loss, m[1], m[0], m[2], d[6], d[:5], d[5], d[7]), {0, 1},
                    ref=lambda m, *d: {0: nnx.grad(lambda q_, qt_: losses.td3_lap_loss(q_, qt_, d[6], d[:5], d[5], d[7])[0])(m[0], m[2])}))

    def b_sac(s):
        pol = GaussianTanhPolicy(GaussianMLP(True, D, A, [2], "relu", nnx.Rngs(s + 3)), zoo.box(A))
        q, qt = zoo.double_q(D, A, (2,), s), zoo.double_q(D, A, (2,), s + 5)
        return (q, sgd(q), qt, pol), ["q", "q_optimizer", "q_target", "policy"]
    out.append(Case("train_step_with_loss(sac_loss)", b_sac, lambda r: _batch(r, False) + (0.9, 0.2, jax.random.key(3)),
                    lambda m, *d: tswl(losses.sac_loss, m[1], m[0], m[2], m[3], d[7], d[6], d[:5], d[5]), {0, 1},
                    ref=lambda m, *d: {0: nnx.grad(lambda q_, qt_, p_: losses.sac_loss(q_, qt_, p_, d[7], d[6], d[:5], d[5])[0])(m[0], m[2], m[3])}))

    # --- actor updates
    def b_actor(s):
        pol, q = zoo.tanh_policy(D, A, (2,), s), zoo.mlp(D + A, 1, (2,), s + 4)
        return (pol, sgd(pol), q), ["policy", "policy_optimizer", "q"]
    out.append(Case("ddpg_update_actor", b_actor, lambda r: (f32(r.normal(size=(2, D))),),
                    lambda m, obs: ddpg.ddpg_update_actor(m[0], m[1], m[2], obs), {0, 1},
                    ref=lambda m, obs: {0: nnx.grad(lambda p_, q_: losses.deterministic_policy_gradient_loss(q_, obs, p_))(m[0], m[2])}))

    def b_sac_actor(s):
        pol = GaussianTanhPolicy(GaussianMLP(True, D, A, [2], "relu", nnx.Rngs(s + 3)), zoo.box(A))
        q = zoo.double_q(D, A, (2,), s)
        return (pol, sgd(pol), q), ["policy", "policy_optimizer", "q"]
    out.append(Case("sac_update_actor", b_sac_actor, lambda r: (f32(r.normal(size=(2, D))), 0.2, jax.random.key(5)),
                    lambda m, obs, al, key: sac.sac_update_actor(m[0], m[1], m[2], key, obs, al), {0, 1},
                    ref=lambda m, obs, al, key: {0: nnx.grad(lambda p_, q_: sac.sac_actor_loss(p_, q_, al, key, obs))(m[0], m[2])}))

    def b_alpha(s):
        pol = GaussianTanhPolicy(GaussianMLP(True, D, A, [2], "relu", nnx.Rngs(s + 3)), zoo.box(A))
        al = sac.EntropyCoefficient(jnp.zeros(1))
        q = zoo.double_q(D, A, (2,), s)
        return (al, sgd(al), pol, q), ["log_alpha", "alpha_optimizer", "policy", "q"]
    out.append(Case("_update_entropy_coefficient", b_alpha, lambda r: (f32(r.normal(size=(2, D))), -1.0, jax.random.key(5)),
                    lambda m, obs, te, key: sac._update_entropy_coefficient(m[1], m[2], te, key, obs, m[0]), {0, 1},
                    ref=lambda m, obs, te, key: {0: nnx.grad(lambda a_, p_: sac.sac_exploration_loss(p_, te, key, obs, a_))(m[0], m[2])}))

    # --- TD7
    def b_td7c(s):
        critic = zoo.sale_critic(D, A, 2, s)
        return (critic, sgd(critic), zoo.sale(D, A, 2, s + 20), zoo.sale(D, A, 2, s + 30), zoo.sale_critic(D, A, 2, s + 40)), \
            ["critic", "critic_optimizer", "fixed_embedding", "fixed_embedding_target", "critic_target"]
    out.append(Case("td7_update_critic", b_td7c, lambda r: _batch(r, False) + (f32(r.normal(size=(2, A))),),
                    lambda m, obs, act, rw, nobs, term, na: td7.td7_update_critic(m[2], m[3], m[0], m[4], m[1], 0.9, obs, act, nobs, na, rw, term, 1.0, -5.0, 5.0), {0, 1}))

    def b_td7a(s):
        pol = zoo.sale_policy(D, A, 2, s)
        return (pol.actor, sgd(pol.actor), pol.embedding, zoo.sale_critic(D, A, 2, s + 4)), ["actor", "actor_optimizer", "fixed_embedding", "critic"]

    def call_td7a(m, obs):
        from rl_blox.blox.embedding.sale import DeterministicSALEPolicy
        td7.td7_update_actor(DeterministicSALEPolicy(m[2], m[0]), m[1], m[3], obs)
    out.append(Case("td7_update_actor", b_td7a, lambda r: (f32(r.normal(size=(2, D))),), call_td7a, {0, 1},
                    ref=lambda m, obs: {0: nnx.grad(lambda a_, e_, c_: td7.deterministic_policy_gradient_loss_sale(e_, c_, obs, a_))(m[0], m[2], m[3])}))

    def b_sale(s):
        emb = zoo.sale(D, A, 2, s)
        return (emb, sgd(emb), zoo.sale(D, A, 2, s + 7), zoo.sale_critic(D, A, 2, s + 4)), ["embedding", "embedding_optimizer", "fixed_embedding", "critic"]
    out.append(Case("update_sale", b_sale, lambda r: (f32(r.normal(size=(2, D))), f32(r.normal(size=(2, A))), f32(r.normal(size=(2, D)))),
                    lambda m, obs, act, nobs: sale.update_sale(m[0], m[1], obs, act, nobs), {0, 1},
                    ref=lambda m, obs, act, nobs: {0: nnx.grad(lambda e_: sale.state_action_embedding_loss(e_, obs, act, nobs))(m[0])}))

    # --- MR.Q
    def b_mrq(s):
        pwe, pwt = zoo.encoder_policy(D, A, s), zoo.encoder_policy(D, A, s + 11)
        q, qt = zoo.mrq_q(s), zoo.mrq_q(s + 5)
        return (q, sgd(q), pwe.policy, sgd(pwe.policy), qt, pwe.encoder, pwt.encoder), ["q", "q_optimizer", "policy", "policy_optimizer", "q_target", "encoder", "encoder_target"]

    def d_mrq(r):
        obs, act, _, nobs, _ = batch_data(2, r, False)
        return (obs, act, f32(r.normal(size=(2, 2))), nobs, f32((r.random((2, 2)) < 0.3).astype(np.float32)), f32(r.normal(size=(2, A))))
    out.append(Case("update_critic_and_policy", b_mrq, d_mrq,
                    lambda m, obs, act, rw, nobs, term, na: mrq.update_critic_and_policy(m[0], m[4], m[1], m[2], m[3], m[5], m[6], 0.9, 1e-2, na, (obs, act, rw, nobs, term, None), 2.0, 3.0),
                    {0, 1, 2, 3}))

    def b_enc(s):
        enc, enct = zoo.encoder_policy(D, A, s, n_bins=3, zs=zoo.W).encoder, zoo.encoder_policy(D, A, s + 11, n_bins=3, zs=zoo.W).encoder
        return (enc, sgd(enc), enct), ["encoder", "encoder_optimizer", "encoder_target"]

    def d_enc(r):
        Bt, H = 2, 2  # target_delay(1) * batch_size(2)
        return (f32(r.normal(size=(Bt, H, D))), f32(r.normal(size=(Bt, H, A))), f32(r.uniform(-0.9, 0.9, size=(Bt, H))), f32(r.normal(size=(Bt, H, D))),
                f32((r.random((Bt, H)) < 0.4).astype(np.float32)))
    BT = namedtuple("Batch", ["observation", "action", "reward", "next_observation", "terminated"])
    out.append(Case("update_model_based_encoder", b_enc, d_enc,
                    lambda m, obs, act, rw, nobs, term: mbe.update_model_based_encoder(m[0], m[2], m[1], jnp.asarray([-1.0, 0.0, 1.0]), 2, 1.0, 0.1, 0.1, 1, 2, True, BT(obs, act, rw, nobs, term), True),
                    {0, 1}))

    # --- on-policy
    def b_ppo(s):
        actor = SoftmaxPolicy(zoo.mlp(D, N_ACT, (2,), s))
        critic = zoo.mlp(D, 1, (2,), s + 2)
        return (actor, sgd(actor), critic, sgd(critic)), ["actor", "actor_optimizer", "critic", "critic_optimizer"]
    out.append(Case("update_ppo", b_ppo, lambda r: (f32(r.normal(size=(3, D))), jnp.asarray(r.integers(0, N_ACT, 3), dtype=jnp.int32), f32(r.normal(size=3)), jnp.zeros(3), f32(r.normal(size=3))),
                    lambda m, obs, act, rw, term, nv: ppo.update_ppo(m[0], m[2], m[1], m[3], obs, act, rw, term, nv, 1), {0, 1, 2, 3}))

    def b_pv(s):
        pol = SoftmaxPolicy(zoo.mlp(D, N_ACT, (2,), s))
        vf = zoo.mlp(D, 1, (2,), s + 2)
        return (pol, sgd(pol), vf, sgd(vf)), ["policy", "policy_optimizer", "value_function", "value_function_optimizer"]
    pv_data = lambda r: (f32(r.normal(size=(2, D))), jnp.asarray(r.integers(0, N_ACT, 2), dtype=jnp.int32), f32(r.normal(size=2)), f32(r.random(2)), f32(r.normal(size=(2, D))))
    out.append(Case("train_value_function", b_pv, pv_data, lambda m, obs, act, ret, gd, nobs: reinforce.train_value_function(m[2], m[3], 1, obs, ret), {2, 3},
                    ref=lambda m, obs, act, ret, gd, nobs: {2: nnx.grad(lambda v_: losses.mse_value_loss(obs, ret, v_))(m[2])}))
    out.append(Case("train_policy_reinforce", b_pv, pv_data, lambda m, obs, act, ret, gd, nobs: reinforce.train_policy_reinforce(m[0], m[1], 1, m[2], obs, act, ret, gd), {0, 1}))
    out.append(Case("train_policy_actor_critic", b_pv, pv_data, lambda m, obs, act, ret, gd, nobs: actor_critic.train_policy_actor_critic(m[0], m[1], 1, m[2], obs, act, nobs, ret, gd, 0.9), {0, 1}))
    out.append(Case("train_policy_a2c", b_pv, pv_data, lambda m, obs, act, ret, gd, nobs: a2c.train_policy_a2c(m[0], m[1], 1, obs, act, ret), {0, 1}))

    # --- PETS ensemble
    from rl_blox.blox import probabilistic_ensemble as pe

    def b_ens(s):
        m = pe.GaussianMLPEnsemble(2, False, 2, 1, [2], "relu", nnx.Rngs(s))
        other = pe.GaussianMLPEnsemble(2, False, 2, 1, [2], "relu", nnx.Rngs(s + 1))
        return (m, sgd(m), other), ["ensemble", "ensemble_optimizer", "other_ensemble"]
    out.append(Case("probabilistic_ensemble.train_epoch", b_ens, lambda r: (f32(r.normal(size=(3, 2))), f32(r.normal(size=(3, 1))), jnp.asarray(r.integers(0, 3, size=(1, 2, 2)), dtype=jnp.int32)),
                    lambda m, X, Y, idx: pe.train_epoch(m[0], m[1], X, Y, idx), {0, 1}))

    def call_train_ensemble(m, X, Y, key):
        from props.e2common import overlay
        with overlay(pe, bootstrap=lambda n_ens, ts, n, k: jnp.tile(jnp.arange(n), (n_ens, 1))):
            pe.train_ensemble(m[0], m[1], 1.0, X, Y, 1, 2, key)
    out.append(Case("probabilistic_ensemble.train_ensemble(update_dynamics_model)", b_ens, lambda r: (f32(r.normal(size=(4, 2))), f32(r.normal(size=(4, 1))), jax.random.key(2)),
                    call_train_ensemble, {0, 1}))

    # --- merely evaluating a loss or acting changes nothing
    out.append(Case("evaluate:td3_loss", b_td3, lambda r: _batch(r, False) + (0.9, f32(r.normal(size=(2, A)))),
                    lambda m, *d: losses.td3_loss(m[0], m[2], d[6], d[:5], d[5]), set()))
    out.append(Case("act:GaussianTanhPolicy.sample", b_sac_actor, lambda r: (f32(r.normal(size=(2, D))), jax.random.key(1)), lambda m, obs, key: m[0].sample(obs, key), set()))

    def call_sa(m, obs, key):
        ddpg.sample_actions(jnp.asarray([-1.0]), jnp.asarray([2.0]), jnp.asarray([1.5]), 0.1, m[0], obs, key)
    out.append(Case("act:ddpg.sample_actions", b_actor, lambda r: (f32(r.normal(size=(D,))), jax.random.key(1)), call_sa, set()))
    return out


def main(tier, seed):
    tp = tier_params(tier)
    rep = Report(PROP, tier, seed)
    sess = Session(tp["timeout"])
    sess.keep_smt2 = tier == "thorough"
    rep.bounds = {"batch": 2, "obs_dim": D, "action_dim": A, "hidden": [2], "gradient_steps": 1, "optimizer": "optax.sgd(0.5) (so that 'non-zero gradient changes the component' is the exact statement out = in - lr*grad)"}
    rep.assumptions = ["real-number semantics; 'bit-identical' is claimed for pass-through leaves (same symbol), otherwise real equality",
                       "all modules and optimizers a routine receives are split/merged as ONE pytree, so aliasing between them would be visible",
                       "trained-leaf obligation uses the gradient jaxpr of the documented loss, generalised to free reals"]
    cs = cases(seed)
    if tier == "quick":
        pass
    for c in cs:
        try:
            run_update_case(rep, sess, c, seed, tier)
        except V.Unsupported as ex:
            rep.inconclusive_(c.site, f"not encodable: {ex}")
    if tier == "thorough":
        bad = sess.cross_check()
        rep.extra["cvc5_disagreements"] = bad
        if bad:
            rep.inconclusive_("cross-check", f"{bad} z3/cvc5 disagreements")
    rep.add_queries(sess)
    rep.samples = [o["name"] for o in rep.obligations if o["kind"].startswith("obligation")][:12]
    _loop_wiring(rep, tier, seed)
    return rep.finish()


def _loop_wiring(rep, tier, seed):
    """E2 / F-LOOP: the training loops hand every update routine the component it is documented to train (and its own
    optimizer), so that 'changes only the trained component' carries over from the routine to the loop."""
    from props import loops as L
    from props.e2common import E2Report
    e2 = E2Report(PROP, tier, seed)
    e2.r = rep

    def mrq(ctx):
        tr = L.run_mrq(ctx, 3, 0, symbolic=())
        pwe, q = tr.cfg["policy_with_encoder"], tr.cfg["q"]
        pt, qt = tr.cfg["policy_with_encoder_target"], tr.cfg["q_target"]
        ue = tr.w.of("update_encoder")
        uc = tr.w.of("update_critic_and_policy")
        ctx.check(len(ue) >= 1 and len(uc) >= 1, "loop-reaches-its-update-routines")
        for (_, _, p) in ue:
            a = p["args"]
            ctx.check(a[0] is pwe.encoder and a[1] is pt.encoder, "mrq:encoder-update-trains-the-online-encoder-against-the-target-encoder")
        for (_, _, p) in uc:
            a = p["args"]
            ctx.check(a[0] is q and a[1] is qt and a[3] is pwe.policy and a[5] is pwe.encoder and a[6] is pt.encoder, "mrq:critic/policy-update-receives-online-q,-target-q,-online-policy-and-both-encoders-in-place")
    e2.run("wiring:train_mrq", mrq, fn="rl_blox.algorithm.mrq.train_mrq", site_of=lambda label: f"train_mrq:{label}")

    def td7(ctx):
        tr = L.run_td7(ctx, 3, 0, symbolic=(), use_checkpoints=False)
        emb, actor, critic = tr.cfg["embedding"], tr.cfg["actor"], tr.cfg["critic"]
        res = tr.result
        for (_, _, p) in tr.w.of("update_sale"):
            ctx.check(p["args"][0] is emb, "td7:representation-update-trains-the-online-embedding")
        for (_, _, p) in tr.w.of("update_critic"):
            a = p["args"]
            ctx.check(a[0] is res.fixed_embedding and a[1] is res.fixed_embedding_target and a[2] is critic and a[3] is res.critic_target,
                      "td7:critic-update-gets-fixed-embedding,-fixed-target-embedding,-critic,-target-critic")
        for (_, _, p) in tr.w.of("update_actor"):
            a = p["args"]
            ctx.check(a[0].actor is actor and a[0].embedding is res.fixed_embedding and a[2] is critic, "td7:actor-update-trains-the-online-actor-with-the-fixed-embedding")
        ctx.check(len(tr.w.of("update_critic")) >= 1, "loop-reaches-its-update-routines")
    e2.run("wiring:train_td7", td7, fn="rl_blox.algorithm.td7.train_td7/_train_step", site_of=lambda label: f"train_td7:{label}")

    def cont(which):
        def prog(ctx):
            tr = L.run_continuous(ctx, which, 2, 0, symbolic=())
            pol, q = tr.cfg["policy"], tr.cfg["q"]
            for (_, _, p) in tr.w.of("train_step"):
                a = p["args"]  # (loss, q_optimizer, q, q_target, ...)
                ctx.check(a[2] is q and a[3] is tr.cfg["q_target"], f"{which}:critic-step-trains-the-online-critic-against-its-target")
            for (_, _, p) in tr.w.of("update_actor"):
                ctx.check(p["args"][0] is pol and p["args"][2] is q, f"{which}:actor-step-trains-the-online-policy-with-the-online-critic")
            ctx.check(len(tr.w.of("train_step")) >= 1, "loop-reaches-its-update-routines")
        return prog
    for which in ("ddpg", "td3", "td3_lap", "sac"):
        e2.run(f"wiring:train_{which}", cont(which), fn=f"rl_blox.algorithm.{which}", site_of=lambda label, which=which: f"train_{which}:{label}")


def replay(path):
    import json
    print(json.dumps(json.load(open(path)), indent=1))
    return main("quick", 0)
