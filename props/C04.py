"""C04 Sampled subtrajectories are contiguous single-episode runs (E2 on the real buffer classes)."""
from __future__ import annotations

import contextlib

import numpy as np

from e2_pysym import core as E
from e2_pysym.core import sym_bool, sym_int, sym_real
from e2_pysym.npshim import JnpShim, NpShim, RngStub, is_poison
from props.e2common import E2Report, overlay

PROP = "C04"


class FixedRng:
    """Replays one concrete start draw (used to ask both views for the same window)."""

    def __init__(self, draws):
        self.d = list(draws)

    def integers(self, low, high=None, size=None, **kw):
        kind, lo, hi, vals = self.d.pop(0)
        return np.asarray(vals, dtype=np.int64).reshape(size) if size is not None else vals[0]

    def uniform(self, low=0.0, high=1.0, size=None):
        kind, vals = self.d.pop(0)
        from e2_pysym.npshim import SymArr
        if all(isinstance(v, (int, float)) for v in vals):
            return np.asarray(vals, dtype=float).reshape(size if size is not None else ())
        return SymArr(np.asarray(vals, dtype=object).reshape(size if size is not None else ()))


class ProbeRng:
    """Concrete generator for the intermediate (discarded) samples of the interleaved histories."""

    def integers(self, low, high=None, size=None, **kw):
        if high is None:
            low, high = 0, low
        if int(high) <= int(low):
            raise ValueError("high <= 0")  # as numpy's generator
        return np.full(size, int(low), dtype=np.int64) if size is not None else int(low)

    def uniform(self, low=0.0, high=1.0, size=None):
        mid = (np.asarray(low, dtype=float) + np.asarray(high, dtype=float)) / 2.0  # inside [low, high) also for per-stratum bounds
        return np.broadcast_to(mid, size).copy() if size is not None else mid


def program(cls_name, N, h, hs, kmax, both_flags, probe=False):
    from rl_blox.blox import replay_buffer as rb

    def prog(ctx):
        sym = not getattr(ctx, "is_replay", False)
        with overlay(rb, np=NpShim(), jnp=JnpShim()):
            buf = getattr(rb, cls_name)(N, horizon=h)
            K = int(sym_int("n_adds", 1, kmax))
            ep, t = 0, 0
            hist = []
            # interleaved histories: one intermediate sample after add number `probe_after` (== K: after every add)
            pa = int(sym_int("probe_after", 0, K)) if probe else -1
            for i in range(K):
                term = sym_bool(f"terminated{i}")
                trunc = sym_bool(f"truncated{i}")
                term, trunc = bool(term), bool(trunc)  # fork: the buffer branches on both flags anyway
                if not both_flags and term and trunc:
                    ctx.assume(False)
                rew = sym_real(f"r{i}")
                tag, ntag = float(ep * 100 + t), float(ep * 100 + t + 1)
                buf.add_sample(observation=[tag], action=float(i), reward=rew, next_observation=[ntag], terminated=int(term), truncated=int(trunc))
                hist.append(dict(ep=ep, t=t, seq=i, reward=rew, terminated=term, truncated=trunc, tag=tag, ntag=ntag))
                ctx.log.append(("T" if term else "") + ("X" if trunc else "") or "-")
                if term or trunc:
                    ep, t = ep + 1, 0
                else:
                    t += 1
                if probe and i < K - 1 and (pa == K or pa == i):
                    ctx.log.append("sample")
                    with contextlib.suppress(ValueError):
                        buf.sample_batch(1, hs, bool(i % 2), ProbeRng())
            rng = RngStub()
            try:
                full = buf.sample_batch(1, hs, True, rng)
            except ValueError:
                return  # nothing can be sampled yet (no admissible start): outside the property
            draws = list(rng.draws)
            ctx.log.append(f"start-draw={draws}")
            obs = [full.observation[0][j][0] for j in range(hs)]
            acts = [full.action[0][j] for j in range(hs)]
            nobs = [full.next_observation[0][j][0] for j in range(hs)]
            rews = [full.reward[0][j] for j in range(hs)]
            terms = [full.terminated[0][j] for j in range(hs)]
            truncs = [full.truncated[0][j] for j in range(hs)]
            # window prefix up to and including the first terminated step
            # never-written slots must not appear anywhere in the returned window (also after its first terminated step)
            for j in range(hs):
                ctx.check(not any(is_poison(x) for x in (obs[j], acts[j], nobs[j], rews[j], terms[j], truncs[j])), "never-reads-a-slot-that-was-never-written")
            f = hs - 1
            for j in range(hs):
                if int(terms[j]) == 1:
                    f = j
                    break
            first = None
            for j in range(f + 1):
                seq = int(acts[j])
                rec = hist[seq] if 0 <= seq < len(hist) else None
                ctx.check(rec is not None and float(obs[j]) == rec["tag"] or (rec is not None and j > 0 and float(obs[j]) == hist[seq]["tag"]), "stored-transition-intact")
                if j == 0:
                    first = rec
                ctx.check(int(truncs[j]) == 0, "never-contains-a-truncated-step")
                ctx.check(rec["ep"] == first["ep"] and rec["t"] == first["t"] + j, "contiguous-run-of-one-episode-in-original-order")
                ctx.check(seq == first["seq"] + j, "never-crosses-the-write-position-into-overwritten-data")
                ctx.check(rews[j] == rec["reward"], "per-step-reward-of-the-same-window")
                ctx.check(float(nobs[j]) == rec["ntag"], "successor-observation-of-the-same-step")
            # reduced (no-intermediate) view of the SAME window
            red = buf.sample_batch(1, hs, False, FixedRng(draws))
            ctx.check(red.observation[0][0] == full.observation[0][0][0], "reduced-view:first-step-observation")
            ctx.check(red.action[0] == full.action[0][0], "reduced-view:first-step-action")
            ctx.check(red.next_observation[0][0] == full.next_observation[0][hs - 1][0] or is_poison(full.next_observation[0][hs - 1][0]), "reduced-view:last-step-successor-observation")
            for j in range(hs):
                if any(is_poison(x) for x in (rews[j], terms[j], truncs[j])):
                    continue
                ctx.check(red.reward[0][j] == rews[j], "reduced-view:per-step-rewards")
                ctx.check(red.terminated[0][j] == terms[j], "reduced-view:per-step-termination-flags")
                ctx.check(red.truncated[0][j] == truncs[j], "reduced-view:per-step-truncation-flags")
    return prog


def main(tier, seed):
    rep = E2Report(PROP, tier, seed)
    if tier == "quick":
        confs = [(3, 1, 1, 5), (4, 2, 2, 6), (4, 2, 1, 5), (5, 3, 3, 6)]
        rep.max_paths = 30000
        rep.time_budget = 500
    else:
        confs = [(3, 1, 1, 5), (4, 2, 2, 6), (4, 2, 1, 5), (5, 3, 3, 6), (4, 3, 2, 6), (6, 3, 3, 7), (6, 2, 2, 7)]
        rep.max_paths = 400000
        rep.time_budget = 1500
    pconfs = [(3, 1, 1, 4)] if tier == "quick" else [(3, 1, 1, 5), (4, 2, 2, 6)]
    rep.r.bounds = {"interleaved histories (capacity, h, hs, K)": [list(c) for c in pconfs],
                    "interleaving": "add^K with intermediate sample_batch calls (concrete draw, result discarded) after one symbolic add position or after every add, then the checked sample",
                    "(capacity N, storage horizon h, sampling horizon hs<=h, max adds K)": [list(c) for c in confs],
                    "flags": "terminated/truncated symbolic per step (quick: not both at once; thorough: all 4 combinations)",
                    "start": "every admissible start (generator draw symbolic, enumerated by forking)", "variants": ["SubtrajectoryReplayBuffer", "SubtrajectoryReplayBufferPER"]}
    rep.r.assumptions = ["numpy allocation shim (poisoned never-written slots) + generator stub as in C02", "observations carry concrete ghost tags (episode, t); actions carry the write sequence number; rewards are symbolic reals",
                         "steps after the first terminated step of a window are unconstrained (as the property scopes it)"]
    rep.r.stubs = ["np (allocation only)", "jnp.asarray", "np.random.Generator -> RngStub"]
    for (N, h, hs, kmax) in confs:
        for cls in ("SubtrajectoryReplayBuffer", "SubtrajectoryReplayBufferPER"):
            if tier == "quick" and cls.endswith("PER") and N > 4:
                continue
            rep.run(f"{cls}[N={N},h={h},hs={hs},K<={kmax}]", program(cls, N, h, hs, kmax, tier != "quick" and kmax <= 5),
                    fn=f"{cls}.add_sample/sample_batch/_sample_idx", site_of=lambda label, cls=cls: f"{cls}:{label}")
    for (N, h, hs, kmax) in pconfs:
        for cls in ("SubtrajectoryReplayBuffer", "SubtrajectoryReplayBufferPER"):
            rep.run(f"{cls}[N={N},h={h},hs={hs},K<={kmax},interleaved-samples]", program(cls, N, h, hs, kmax, False, probe=True),
                    fn=f"{cls}.add_sample/sample_batch/_sample_idx", site_of=lambda label, cls=cls: f"{cls}:{label}")
    return rep.finish()


def replay(path):
    import json
    print(json.dumps(json.load(open(path)), indent=1))
    return main("quick", 0)
