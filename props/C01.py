"""C01 Stored experience equals what the environment actually produced (F-LOOP, E2)."""
from __future__ import annotations

from e2_pysym import core as E
from props import loops as L
from props import loopworld as W
from props.e2common import E2Report

PROP = "C01"


def prog_factory(kind, which, K, start):
    def prog(ctx):
        if kind == "dqn":
            tr = L.run_dqn_family(ctx, which, K, start, symbolic=("learning_starts", "rolls"))
            L.check_stored_experience(ctx, tr)
            L.check_policy_sees_current_obs(ctx, tr, "greedy_policy", lambda p: p["args"][1])
        elif kind == "cont":
            tr = L.run_continuous(ctx, which, K, start, symbolic=("learning_starts",))
            L.check_stored_experience(ctx, tr)
            L.check_policy_sees_current_obs(ctx, tr, "sample_actions", lambda p: p["obs"])
            L.check_policy_sees_current_obs(ctx, tr, "policy_sample", lambda p: p["obs"])
        elif kind == "td7":
            tr = L.run_td7(ctx, K, start, symbolic=("learning_starts",))
            L.check_stored_experience(ctx, tr)
            L.check_policy_sees_current_obs(ctx, tr, "sample_actions", lambda p: p["obs"])
        elif kind == "mrq":
            tr = L.run_mrq(ctx, K, start, symbolic=("learning_starts",))
            L.check_stored_experience(ctx, tr, term_key="terminated")
            for a, s in zip(tr.buf.adds, tr.env.steps):
                ctx.check(a["truncated"] == s["truncated"], "stored-truncation-flag-is-that-step's-flag")
            L.check_policy_sees_current_obs(ctx, tr, "sample_actions", lambda p: p["obs"])
        else:
            tr = L.RUNNERS[kind](ctx, which, K, start)
        ctx.log.append(f"{which}: {tr.env.n_steps} steps")
    return prog


def main(tier, seed):
    rep = E2Report(PROP, tier, seed)
    Ks = [1, 3] if tier == "quick" else [1, 2, 3, 4]
    rep.r.bounds = {"steps_K": Ks, "global_step": [0], "symbolic": "terminated/truncated of every step, rewards, epsilon rolls, learning_starts in [0,K+1]"}
    rep.r.assumptions = ["environment, networks, update routines, PRNG are recording nondeterministic stubs; observations/actions are unique concrete tags (the loops only move them)",
                         "the recording buffer stub stores exactly what add_sample receives; the buffer's own storage is C02/C04"]
    rep.r.stubs = ["env (RecEnv)", "action_space.sample", "greedy_policy / samplers / policy.sample", "update routines", "nnx.clone/jit", "jax.random", "trange"]
    table = [("dqn", w) for w in ("dqn", "nature_dqn", "ddqn", "per")] + [("cont", w) for w in ("ddpg", "td3", "td3_lap", "sac")] + [("td7", "td7"), ("mrq", "mrq")]
    table += [(k, w) for (k, w) in L.EXTRA_C01]
    for kind, which in table:
        for K in Ks:
            rep.run(f"train_{which}[K={K}]", prog_factory(kind, which, K, 0), fn=f"rl_blox.algorithm.{which}", site_of=lambda label, which=which: f"train_{which}:{label}")
    _ppo_collector(rep.r, tier, seed)
    return rep.finish()


def _ppo_collector(rep, tier, seed):
    """PPO's rollout collector (E1: the real collect_trajectories traced over a stub vector env whose returns are
    symbolic arrays).  The stub actor's action depends on the observation it is given (a_t = acts[t] + w*obs[:, 0]) and
    the stub env's reward depends on the action it receives (r_t = rewards[t] + c*action), so that 'the policy is
    conditioned on the current observation' and 'the stored action is the one passed to the environment' become
    equalities over the returned arrays."""
    import jax
    import jax.numpy as jnp
    import numpy as np
    from flax import nnx
    from rl_blox.algorithm import ppo
    from rl_blox.blox.function_approximator.mlp import MLP
    from props.common import E1, tier_params
    from symcore import sarray as S
    from symcore import values as V
    from symcore.solver import Session
    sess = Session(tier_params(tier)["timeout"])
    D = 2
    for (T, N) in ([(3, 2)] if tier == "quick" else [(3, 2), (4, 2), (3, 3)]):
        critic = MLP(D, 1, [2], "relu", nnx.Rngs(seed))
        gdef, st = nnx.split(critic)

        class _Np:
            def __getattr__(self, k):
                return getattr(np, k)

            @staticmethod
            def asarray(x, *a, **k):
                return x

        def fn(state, obs_seq, rewards, terms, acts, w, c, key, gdef=gdef, T=T, N=N):
            crit = nnx.merge(gdef, state)

            class Envs:
                t = 0

                def reset(self):
                    return obs_seq[0], {}

                def step(self, action):
                    t = self.t
                    self.t += 1
                    return obs_seq[t + 1], rewards[t] + c * action[:, 0], terms[t], jnp.zeros(N, dtype=bool), {}

            class Actor:
                t = 0

                def sample(self, obs, key):
                    t = self.t
                    self.t += 1
                    return acts[t] + w * obs[:, :1]
            old = ppo.np
            ppo.np = _Np()
            try:
                traj = ppo.collect_trajectories(Envs(), Actor(), crit, key, batch_size=T, logger=None)
            finally:
                ppo.np = old
            nv_ref = jnp.stack([crit(obs_seq[t + 1]).reshape(N) for t in range(T)])  # value of the successor observation
            return (traj.observation, traj.action, traj.reward, traj.terminated, traj.next_value, traj.last_observation), nv_ref
        rng = np.random.default_rng(seed)
        ex = (st, jnp.array(rng.normal(size=(T + 1, N, D)), dtype=jnp.float32), jnp.array(rng.normal(size=(T, N)), dtype=jnp.float32), jnp.zeros((T, N)),
              jnp.array(rng.normal(size=(T, N, 1)), dtype=jnp.float32), 0.5, 0.25, jax.random.key(0))
        e = E1(rep, sess, fn, ex, f"ppo.collect_trajectories[T={T},N={N}]", validate_sets=[ex])
        site = "ppo.collect_trajectories"
        (o_obs, o_act, o_rew, o_term, o_nv, o_last), nv_ref = e.outs
        if tuple(np.shape(o_rew)) != (T, N) and int(np.asarray(o_rew).size) != T * N:
            rep.violation(f"{site}:one-row-per-step-and-environment", f"{np.shape(o_rew)} rewards for T={T}, N={N}", {"T": T, "N": N})
            continue

        def rows(i, o):
            (obs_, act_, rew_, term_, nv_, last_), nvr = o
            obs_seq, rewards, terms, acts, w, c = (S.SA(x) for x in i[1:7])
            lead = tuple(np.shape(rew_))
            g = []
            for t in range(T):
                for n in range(N):
                    ix = (t, n) if len(lead) == 2 else (n * T + t,)
                    a_tn = acts[t, n, 0] + w * obs_seq[t, n, 0]
                    g.append(S.close(S.SA(obs_)[ix], obs_seq[t, n]))            # observation the env last returned
                    g.append(S.close(S.SA(act_)[ix].reshape(-1)[0], a_tn))      # policy saw that observation
                    g.append(S.close(S.SA(rew_)[ix], rewards[t, n] + c * a_tn))  # env received the stored action
                    g.append(S.close(S.SA(term_)[ix], terms[t, n]))
                    g.append(S.close(S.SA(nv_)[ix], S.SA(nvr)[t, n]))           # bootstrap value of that step's successor
            g.append(S.close(S.SA(last_), obs_seq[T]))
            return g
        e.obligation("every-row=(current obs, action passed to env, that step's reward/flag, V(successor)); last_observation=final obs", rows,
                     site=f"{site}:rollout-rows-equal-what-the-environment-produced")
    # ---- the logger branch: with a logger attached the collector reads the finished episodes from `info` and bootstraps a
    # finished environment from its FINAL observation (same-step autoreset: next_obs already is the reset observation).
    # Which environments finish at which step is a concrete pattern per run (the branch is Python control flow).
    T, N = 2, 2
    patterns = [((False, True), (False, False)), ((True, False), (False, True)), ((True, True), (False, False))]
    if tier != "quick":
        patterns += [((False, False), (True, False)), ((False, True), (True, True))]
    for fin in patterns:
        critic = MLP(D, 1, [2], "relu", nnx.Rngs(seed))
        gdef, st = nnx.split(critic)

        class _Np2:
            def __getattr__(self, k):
                return getattr(np, k)

            @staticmethod
            def asarray(x, *a, **k):
                return x

        class _Logger:
            def record_stat(self, *a, **k):
                pass

            def start_new_episode(self):
                pass

        def fn2(state, obs_seq, final_obs, rewards, terms, acts, w, key, gdef=gdef, fin=fin):
            crit = nnx.merge(gdef, state)

            class Envs:
                t = 0

                def reset(self):
                    return obs_seq[0], {}

                def step(self, action):
                    t = self.t
                    self.t += 1
                    info = {}
                    if any(fin[t]):
                        info = {"episode": {"r": np.ones(N), "l": np.ones(N, dtype=int)}, "final_obs": [final_obs[t][n] for n in range(N)],
                                "_episode": np.asarray(fin[t])}
                    return obs_seq[t + 1], rewards[t], terms[t], jnp.zeros(N, dtype=bool), info

            class Actor:
                t = 0

                def sample(self, obs, key):
                    t = self.t
                    self.t += 1
                    return acts[t] + w * obs[:, :1]
            old = ppo.np
            ppo.np = _Np2()
            try:
                traj = ppo.collect_trajectories(Envs(), Actor(), crit, key, batch_size=T, logger=_Logger())
            finally:
                ppo.np = old
            succ = [jnp.stack([final_obs[t][n] if fin[t][n] else obs_seq[t + 1][n] for n in range(N)]) for t in range(T)]
            nv_ref = jnp.stack([crit(succ[t]).reshape(N) for t in range(T)])
            return (traj.observation, traj.action, traj.next_value, traj.last_observation), nv_ref
        rng = np.random.default_rng(seed)
        ex = (st, jnp.array(rng.normal(size=(T + 1, N, D)), dtype=jnp.float32), jnp.array(rng.normal(size=(T, N, D)), dtype=jnp.float32),
              jnp.array(rng.normal(size=(T, N)), dtype=jnp.float32), jnp.zeros((T, N)), jnp.array(rng.normal(size=(T, N, 1)), dtype=jnp.float32), 0.5, jax.random.key(0))
        tag = "".join("".join("x" if f_ else "-" for f_ in row) + "|" for row in fin)
        e = E1(rep, sess, fn2, ex, f"ppo.collect_trajectories[logger attached,finished={tag}]", validate_sets=[ex])

        def rows2(i, o, fin=fin):
            (obs_, act_, nv_, last_), nvr = o
            obs_seq, acts, w = S.SA(i[1]), S.SA(i[5]), S.SA(i[6])
            lead = tuple(np.shape(nv_))
            g = []
            for t in range(T):
                for n in range(N):
                    ix = (t, n) if len(lead) == 2 else (n * T + t,)
                    g.append(S.close(S.SA(obs_)[ix], obs_seq[t, n]))  # stored / acted-on observation: what the env last returned
                    g.append(S.close(S.SA(act_)[ix].reshape(-1)[0], acts[t, n, 0] + w * obs_seq[t, n, 0]))
                    g.append(S.close(S.SA(nv_)[ix], S.SA(nvr)[t, n]))  # bootstrap: own final observation if finished, else own successor
            g.append(S.close(S.SA(last_), obs_seq[T]))
            return g
        e.obligation("rows-and-bootstrap-values-with-finished-episodes", rows2, site="ppo.collect_trajectories:rollout-rows-with-a-logger-attached-and-finished-episodes")
    rep.add_queries(sess)


def replay(path):
    import json
    print(json.dumps(json.load(open(path)), indent=1))
    return main("quick", 0)
