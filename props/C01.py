"""C01 Stored experience equals what the environment actually produced (F-LOOP, E2)."""
from __future__ import annotations

from e2_pysym import core as E
from props import loops as L
from props import loopworld as W
from props.e2common import E2Report

PROP = "C01"


def prog_factory(kind, which, K, start):
    def prog(ctx):
        if kind == "dqn":
            tr = L.run_dqn_family(ctx, which, K, start, symbolic=("learning_starts", "rolls"))
            L.check_stored_experience(ctx, tr)
            L.check_policy_sees_current_obs(ctx, tr, "greedy_policy", lambda p: p["args"][1])
        elif kind == "cont":
            tr = L.run_continuous(ctx, which, K, start, symbolic=("learning_starts",))
            L.check_stored_experience(ctx, tr)
            L.check_policy_sees_current_obs(ctx, tr, "sample_actions", lambda p: p["obs"])
            L.check_policy_sees_current_obs(ctx, tr, "policy_sample", lambda p: p["obs"])
        elif kind == "td7":
            tr = L.run_td7(ctx, K, start, symbolic=("learning_starts",))
            L.check_stored_experience(ctx, tr)
            L.check_policy_sees_current_obs(ctx, tr, "sample_actions", lambda p: p["obs"])
        elif kind == "mrq":
            tr = L.run_mrq(ctx, K, start, symbolic=("learning_starts",))
            L.check_stored_experience(ctx, tr, term_key="terminated")
            for a, s in zip(tr.buf.adds, tr.env.steps):
                ctx.check(a["truncated"] == s["truncated"], "stored-truncation-flag-is-that-step's-flag")
            L.check_policy_sees_current_obs(ctx, tr, "sample_actions", lambda p: p["obs"])
        else:
            tr = L.RUNNERS[kind](ctx, which, K, start)
        ctx.log.append(f"{which}: {tr.env.n_steps} steps")
    return prog


def main(tier, seed):
    rep = E2Report(PROP, tier, seed)
    Ks = [1, 3] if tier == "quick" else [1, 2, 3, 4]
    rep.r.bounds = {"steps_K": Ks, "global_step": [0], "symbolic": "terminated/truncated of every step, rewards, epsilon rolls, learning_starts in [0,K+1]"}
    rep.r.assumptions = ["environment, networks, update routines, PRNG are recording nondeterministic stubs; observations/actions are unique concrete tags (the loops only move them)",
                         "the recording buffer stub stores exactly what add_sample receives; the buffer's own storage is C02/C04"]
    rep.r.stubs = ["env (RecEnv)", "action_space.sample", "greedy_policy / samplers / policy.sample", "update routines", "nnx.clone/jit", "jax.random", "trange"]
    table = [("dqn", w) for w in ("dqn", "nature_dqn", "ddqn", "per")] + [("cont", w) for w in ("ddpg", "td3", "td3_lap", "sac")] + [("td7", "td7"), ("mrq", "mrq")]
    table += [(k, w) for (k, w) in L.EXTRA_C01]
    for kind, which in table:
        for K in Ks:
            rep.run(f"train_{which}[K={K}]", prog_factory(kind, which, K, 0), fn=f"rl_blox.algorithm.{which}", site_of=lambda label, which=which: f"train_{which}:{label}")
    return rep.finish()


def replay(path):
    import json
    print(json.dumps(json.load(open(path)), indent=1))
    return main("quick", 0)
