"""Shared harness plumbing for E1 obligations: prove / model polishing / replay."""
from __future__ import annotations

import os
import time
from fractions import Fraction

import jax
import jax.numpy as jnp
import numpy as np
import z3

from e1_jaxpr.interp import AbsKey, Ctx, _is_key_dtype, _kind
from e1_jaxpr.trace import Traced, fresh_copy
from symcore import sarray as S
from symcore import values as V
from symcore.solver import Session, model_value

TOL = 2e-3


def tier_params(tier):
    return {"quick": dict(timeout=60.0), "thorough": dict(timeout=180.0)}[tier]


def z3_vars_of(tree):
    out = []
    for leaf in jax.tree_util.tree_leaves(tree):
        if isinstance(leaf, np.ndarray) and leaf.dtype == object:
            for e in leaf.reshape(-1):
                if isinstance(e, z3.ExprRef) and z3.is_const(e) and e.decl().kind() == z3.Z3_OP_UNINTERPRETED:
                    out.append(e)
    return out


def concretise(tree, model, example_tree):
    """Replace symbols by model values; returns (pytree of real jax/numpy arrays, json-able dict)."""
    leaves, td = jax.tree_util.tree_flatten(tree)
    ex_leaves = td.flatten_up_to(example_tree)
    out, js = [], []
    for leaf, ex in zip(leaves, ex_leaves):
        if not (isinstance(leaf, np.ndarray) and leaf.dtype == object):
            out.append(ex if leaf is None else leaf)
            js.append(None)
            continue
        dt = ex.dtype if hasattr(ex, "dtype") else np.asarray(ex).dtype
        if _is_key_dtype(dt):
            out.append(ex)
            js.append("key")
            continue
        vals = [model_value(model, e) if isinstance(e, z3.ExprRef) else e for e in leaf.reshape(-1)]
        k = _kind(dt)
        if k == "float":
            arr = np.array([float(v) for v in vals], dtype=np.float64).reshape(leaf.shape)
        elif k == "int":
            arr = np.array([int(v) for v in vals], dtype=np.int64).reshape(leaf.shape)
        else:
            arr = np.array([bool(v) for v in vals], dtype=bool).reshape(leaf.shape)
        js.append([str(v) for v in vals])
        if isinstance(ex, (float, int, bool)) and leaf.shape == ():
            out.append(type(ex)(arr[()]))
        else:
            out.append(jnp.asarray(arr, dtype=dt))
    return jax.tree_util.tree_unflatten(td, out), js


def as_obj(tree):
    """pytree of real arrays -> pytree of object arrays of exact rationals."""
    def f(x):
        if hasattr(x, "dtype") and _is_key_dtype(x.dtype):
            return x
        return V.obj_array(np.asarray(x))
    return jax.tree_util.tree_map(f, tree)


def _real_key(term, roots):
    """Rebuild the real jax key denoted by an abstract key term."""
    if term in roots:
        return roots[term]
    if isinstance(term, tuple) and term:
        if term[0] == "split":
            parent = _real_key(term[1], roots)
            return jax.random.split(parent, term[2])[term[3]]
        if term[0] == "fold":
            return jax.random.fold_in(_real_key(term[1], roots), int(term[2]))
        if term[0] == "seed":
            return jax.random.key(int(term[1]))
        if term[0] == "k":
            return jax.random.wrap_key_data(jnp.asarray(term[1], dtype=jnp.uint32))
    raise V.Unsupported(f"cannot rebuild key {term}")


class Noise:
    """View on the abstract noise of one interpretation: kind -> list of object arrays
    (in creation order).  In replay mode the arrays hold the real draws."""

    def __init__(self, entries):
        self.entries = entries  # list of (kind, keyterm, shape, extra, array)

    def of(self, kind):
        return [S.SA(a) for (k, _, _, _, a) in self.entries if k == kind]


def noise_from_ctx(ctx):
    return Noise([(k[0], k[1], k[2], k[3], a) for k, a in ctx.noise.items()])


class E1:
    """One traced real function with symbolic inputs, ready for obligations."""

    def __init__(self, rep, sess, fn, example_args, site, overrides=None, hyps=(), prefix="", validate_sets=None, post=None, soft=False, numeric_consts=False):
        self.rep, self.sess, self.fn, self.site = rep, sess, fn, site
        self.example_args = example_args
        t0 = time.time()
        self.tr = Traced(fn, *example_args, name=site)
        self.ins = self.tr.sym_inputs(prefix)
        if overrides:
            self.ins = overrides(self.ins)
        self.numeric_consts = numeric_consts
        n_inf0 = len(V.INF_APPROX)
        self.outs, self.ctx = self.tr.run(self.ins, Ctx(numeric=True) if numeric_consts else None)
        self.inf_hyps = [(v >= 10**15) if sg > 0 else (v <= -10**15) for v, sg in V.INF_APPROX[n_inf0:]]
        self.raw_outs = self.outs
        if post is not None:
            self.outs = post(self.ins, self.outs)
        self.soft = soft
        self.pending = []
        self.hyps = list(hyps) + list(self.ctx.assumptions) + list(self.inf_hyps)
        self.noise = noise_from_ctx(self.ctx)
        self.trace_s = time.time() - t0
        rep.functions.append({"site": site, "jaxpr_eqns": self.tr.n_eqns, "interpreted_eqns": self.ctx.n_eqns,
                              "primitives": sorted(self.ctx.prims), "in_shapes": [list(np.shape(l)) for l in self.tr.in_leaves]})
        if validate_sets:
            n = self.tr.validate(validate_sets)
            rep.extra["translator_validation_elems"] = rep.extra.get("translator_validation_elems", 0) + n

    def _inconclusive(self, site, why):
        if self.soft:
            self.pending.append((site, why))
        else:
            self.rep.inconclusive_(site, why)

    def add_hyp(self, *hs):
        for h in hs:
            if isinstance(h, S.SA):
                h = h.all()
            self.hyps.append(V.to_z3(h))

    def check_reachable(self):
        q = self.sess.reachable(self.site + ":reach", self.hyps)
        if q.verdict != "sat":
            self._inconclusive(self.site, f"assumptions not satisfiable ({q.verdict}) - vacuous harness")
        return q

    def obligation(self, name, pred, extra_hyps=(), timeout_s=None, cases=None, split=False, site=None, extreme=False):
        """pred(ins, outs) -> element/SA/list of bools; must hold for all inputs satisfying hyps.
        cases: optional list of (label, hypothesis) - the obligation is proved per case and a
        separate obligation shows the cases are exhaustive.  split: prove each element of an SA
        goal as its own query.  extreme: the property quantifies over extreme magnitudes too, so a sat verdict is
        also replayed on a model with widely separated large inputs (the oracle must be numerically stable there)."""
        import inspect as _insp
        wants_noise = len([p for p in _insp.signature(pred).parameters.values() if p.default is _insp.Parameter.empty]) >= 3
        pred = self._arity3(pred)
        goal = pred(self.ins, self.outs, self.noise)
        hyps = self.hyps + [V.to_z3(h.all() if isinstance(h, S.SA) else h) for h in extra_hyps]
        full = f"{self.site}:{name}"
        if split and isinstance(goal, S.SA):
            goals = [(f"[{i}]", g) for i, g in enumerate(goal.flat())]
        else:
            if isinstance(goal, S.SA):
                goal = goal.all()
            elif isinstance(goal, (list, tuple)):
                goal = S.conj(goal)
            goals = [("", goal)]
        case_list = [("", True)]
        if cases:
            case_list = [(f"|{lab}", V.to_z3(c.all() if isinstance(c, S.SA) else c)) for lab, c in cases]
            qx = self.sess.prove(full + ":cases-exhaustive", hyps, z3.Or(*[c for _, c in case_list]), timeout_s=timeout_s)
            if qx.verdict != "unsat":
                self._inconclusive(full, f"case split not shown exhaustive ({qx.verdict})")
                return None
        result = True
        for glab, g in goals:
            if _is_true(g):
                self.sess.prove(full + glab, hyps, True)
                continue
            for clab, c in case_list:
                h2 = hyps if c is True else hyps + [c]
                q = self.sess.prove(full + glab + clab, h2, g, timeout_s=timeout_s)
                if q.verdict == "unsat":
                    if self.inf_hyps and not _is_true(g):
                        self._inconclusive(full + glab + clab, "proved only under the finite approximation of an infinite constant")
                        result = None
                    continue
                if q.verdict == "unknown":
                    self._inconclusive(full + glab + clab, "solver returned unknown")
                    result = None
                    continue
                r = self._replay(name, full + glab + clab, pred, h2, g, q, site, wants_noise, extreme=extreme)
                if r is False:
                    return False
                result = None
        return result

    @staticmethod
    def _arity3(pred):
        import inspect
        n = len([p for p in inspect.signature(pred).parameters.values() if p.default is inspect.Parameter.empty])
        if n >= 3:
            return pred
        return lambda i, o, nz: pred(i, o)

    def _real_noise(self, conc_args):
        """Real draws for every abstract noise array, from the real keys of the replay inputs."""
        if not self.noise.entries:
            return self.noise
        roots = {}
        leaves = jax.tree_util.tree_leaves(conc_args)
        for path, leaf in zip(self.tr.in_paths, leaves):
            if hasattr(leaf, "dtype") and _is_key_dtype(leaf.dtype):
                for idx in np.ndindex(*leaf.shape) if leaf.shape else [()]:
                    roots[(path,) + idx] = leaf[idx]
        out = []
        for (kind, term, shape, extra, arr) in self.noise.entries:
            k = _real_key(term, roots)
            if kind == "normal":
                r = jax.random.normal(k, shape)
            elif kind == "u01":
                r = jax.random.uniform(k, shape)
            elif kind == "gumbel":
                r = jax.random.gumbel(k, shape)
            elif kind == "perm":
                r = jax.random.permutation(k, shape[0])
            elif kind == "tnormal":
                lo, hi = (float(eval(e, {"Fraction": Fraction})[0]) for e in extra)
                r = jax.random.truncated_normal(k, lo, hi, shape)
            else:
                raise V.Unsupported(f"replay of noise kind {kind}")
            out.append((kind, term, shape, extra, V.obj_array(np.asarray(r))))
        return Noise(out)

    def _replay(self, name, full, pred, hyps, goal, q, site=None, wants_noise=True, extreme=False):
        """sat: turn solver models into concrete inputs and replay them on the real code.  Several models are tried
        (bounded and away from zero, bounded, the solver's own) because a model may sit on a point where the
        difference is below the float tolerance."""
        models = []
        for strat in ("margin", "distinct", "nonzero", "bounded") + (("extreme",) if extreme else ()):
            m = self._polish(hyps, goal, strat, base=q.model)
            if m is not None:
                models.append(m)
        models.append(q.model)
        last_err = None
        for model in models:
            try:
                conc_args, js = concretise(self.ins, model, self.example_args)
                S.MODE.numeric, S.MODE.tol = True, TOL
                try:
                    real_outs = self.fn(*fresh_copy(conc_args))
                    noise = self._real_noise(conc_args) if wants_noise else self.noise
                    ok = pred(as_obj(conc_args), as_obj(real_outs), noise)
                    if isinstance(ok, S.SA):
                        ok = ok.all()
                    elif isinstance(ok, (list, tuple)):
                        ok = S.conj(ok)
                finally:
                    S.MODE.numeric, S.MODE.tol = False, 0.0
                self.rep.replayed += 1
            except Exception as e:  # replay itself failed: a loud rejection is not a silent wrong value
                last_err = f"replay raised {type(e).__name__}: {e}"
                continue
            if ok is False or (isinstance(ok, bool) and not ok):
                self.rep.violation(site or f"{self.site}:{name}", f"obligation '{name}' fails on the real code",
                                   {"obligation": full, "inputs": js, "paths": self.tr.in_paths})
                return False
        self._inconclusive(full, last_err or "solver models did not reproduce on the real code (encoding gap or float effect)")
        return None

    # ------------------------------------------------------------------ two-copy
    def second_copy(self, vary, prefix="B_"):
        """Inputs of a second run: identical symbols except where vary(ins) (a pytree of bool
        masks) is True, where fresh symbols are used.  Returns (insB, outsB)."""
        masks = vary(self.ins)
        lA, td = jax.tree_util.tree_flatten(self.ins)
        lM = td.flatten_up_to(masks)
        lB = []
        for a, m, v in zip(lA, lM, self.tr.closed.jaxpr.invars):
            if m is None or not np.any(m):
                lB.append(a)
                continue
            m = np.broadcast_to(np.asarray(m, dtype=bool), a.shape)
            b = a.copy()
            k = _kind(v.aval.dtype)
            for idx in np.ndindex(*a.shape) if a.shape else [()]:
                if m[idx]:
                    nm = prefix + str(a[idx])
                    b[idx] = z3.Real(nm) if k == "float" else (z3.Int(nm) if k == "int" else z3.Bool(nm))
            lB.append(b)
        insB = jax.tree_util.tree_unflatten(td, lB)
        ctxB = Ctx(tag="B_", numeric=bool(getattr(self, "numeric_consts", False)))
        outsB, ctxB = self.tr.run(insB, ctxB)
        return insB, outsB, ctxB

    def noninterference(self, name, vary, select, hyps_fn=None, timeout_s=None, site=None):
        """Outputs select(outs) must not change when the inputs marked by vary change arbitrarily."""
        insB, outsB, ctxB = self.second_copy(vary)
        hyps = list(self.hyps) + list(ctxB.assumptions)
        if hyps_fn is not None:
            for h in hyps_fn(self.ins, insB):
                hyps.append(V.to_z3(h.all() if isinstance(h, S.SA) else h))
        full = f"{self.site}:{name}"

        def pred2(insA, outsA, insB_, outsB_):
            return S.close(S.SA(select(insA, outsA)), S.SA(select(insB_, outsB_)))
        goal = pred2(self.ins, self.outs, insB, outsB).all()
        q = self.sess.prove(full, hyps, goal, timeout_s=timeout_s)
        if q.verdict == "unsat":
            return True
        if q.verdict == "unknown":
            self._inconclusive(full, "solver returned unknown")
            return None
        try:
            model = q.model
            cA, jsA = concretise(self.ins, model, self.example_args)
            cB, jsB = concretise(insB, model, self.example_args)
            S.MODE.numeric, S.MODE.tol = True, 1e-4
            try:
                ok = pred2(as_obj(cA), as_obj(self.fn(*fresh_copy(cA))), as_obj(cB), as_obj(self.fn(*fresh_copy(cB)))).all()
            finally:
                S.MODE.numeric, S.MODE.tol = False, 0.0
            self.rep.replayed += 1
        except Exception as e:
            self._inconclusive(full, f"replay raised {type(e).__name__}: {e}")
            return None
        if ok is False:
            self.rep.violation(site or f"{self.site}:{name}", f"non-interference '{name}' fails on the real code: two inputs that differ only "
                               "in data that must not matter give different outputs",
                               {"obligation": full, "inputs_A": jsA, "inputs_B": jsB, "paths": self.tr.in_paths})
            return False
        self._inconclusive(full, "solver model did not reproduce on the real code")
        return None

    def _polish(self, hyps, goal, strategy="bounded", base=None):
        vs = [v for v in z3_vars_of(self.ins) if v.sort() == z3.RealSort()]
        if not vs:
            return None
        s = z3.Solver()
        s.set("timeout", 5000)
        from symcore.solver import _finite_domains, ground_axioms, model_value
        g = V.to_z3(goal)
        cons = list(hyps) + [z3.Not(g)]
        for c in cons:
            s.add(c)
        for a in ground_axioms(cons):
            s.add(a)
        if base is not None:
            # finite-domain variables (0/1 flags) keep the values of the solver's own counterexample: what is left is
            # usually linear, so the polished model is found within the short time-out
            try:
                for v, _vals in _finite_domains(cons):
                    s.add(v == model_value(base, v))
            except Exception:
                pass
        if strategy == "margin":
            # a counterexample whose violation is well above the float tolerance of the replay: some equality of the
            # goal fails by at least delta (largest delta the solver can reach quickly)
            atoms = _eq_atoms(g)
            if not atoms:
                return None
            for delta in ("1/2", "1/20", "1/200"):
                s.push()
                d = z3.RealVal(delta)
                s.add(z3.Or(*[z3.Or(a - b >= d, b - a >= d) for a, b in atoms]))
                for v in vs:
                    s.add(v >= -4, v <= 4)
                if s.check() == z3.sat:
                    return s.model()
                s.pop()
            return None
        if strategy == "extreme":  # large, widely separated magnitudes (saturating softmax / clipping ranges)
            for v in vs:
                s.add(v >= -400, v <= 400)
            for i_, a_ in enumerate(vs[:8]):
                for b_ in vs[i_ + 1:8]:
                    s.add(z3.Or(a_ - b_ >= 150, b_ - a_ >= 150))
        for v in vs if strategy != "extreme" else ():
            s.add(v >= -4, v <= 4)
            if strategy in ("nonzero", "distinct"):
                s.add(z3.Or(v >= z3.RealVal(1) / 2, v <= -z3.RealVal(1) / 2))
        if strategy == "distinct" and 1 < len(vs) <= 60:
            s.add(z3.Distinct(*vs))
            for i_, a_ in enumerate(vs[:12]):  # also keep absolute values apart (avoids x = -y cancellations)
                for b_ in vs[i_ + 1:12]:
                    s.add(a_ + b_ != 0)
        if s.check() == z3.sat:
            return s.model()
        return None


def _eq_atoms(g, out=None, depth=0):
    """(lhs, rhs) of the arithmetic equalities a goal is a conjunction of."""
    out = [] if out is None else out
    if depth > 6 or not isinstance(g, z3.ExprRef):
        return out
    if z3.is_and(g):
        for c in g.children():
            _eq_atoms(c, out, depth + 1)
    elif z3.is_eq(g) and z3.is_arith(g.arg(0)):
        out.append((g.arg(0), g.arg(1)))
    return out


def _is_true(g):
    return g is True or (isinstance(g, z3.ExprRef) and z3.is_true(g))


def rand_like(example_args, seed, scale=1.0):
    """Seeded concrete inputs with the structure of example_args (for translator validation)."""
    rng = np.random.default_rng(seed)

    def f(x):
        if hasattr(x, "dtype") and _is_key_dtype(x.dtype):
            return x
        a = np.asarray(x)
        if a.dtype == np.bool_:
            return jnp.asarray(rng.integers(0, 2, a.shape).astype(bool))
        if np.issubdtype(a.dtype, np.integer):
            return x
        r = rng.normal(size=a.shape) * scale
        if isinstance(x, float):
            return float(r)
        return jnp.asarray(r, dtype=a.dtype)
    return jax.tree_util.tree_map(f, example_args)


# ---------------------------------------------------------------------------- mode P generalisation
def generalise(targets, exports, prefix="G"):
    """Replace every exported forward-pass element occurring inside `targets` by a fresh real
    variable (z3.substitute, outermost terms first).  Sound for unsat: the fresh variables range
    over all reals, a superset of what any network can output.
    targets: pytree of object arrays; exports: dict name -> object array.
    Returns (targets', exports' as fresh-variable arrays, n_substituted)."""
    pairs = []
    fresh = {}
    for name, arr in exports.items():
        arr = np.asarray(arr, dtype=object)
        out = np.empty(arr.shape, dtype=object)
        for idx in np.ndindex(*arr.shape) if arr.shape else [()]:
            t = arr[idx]
            if isinstance(t, z3.ExprRef) and not (z3.is_const(t) and t.decl().kind() == z3.Z3_OP_UNINTERPRETED) and not z3.is_rational_value(t) and not z3.is_int_value(t):
                is_int = t.sort() == z3.IntSort()
                v = (z3.Int if is_int else z3.Real)(f"{prefix}_{name}" + ("_" + "_".join(map(str, idx)) if idx else ""))
                pairs.append((t, v))
                out[idx] = v
            else:
                out[idx] = t
        fresh[name] = out
    # de-duplicate identical terms (keep first variable)
    seen = {}
    uniq = []
    for t, v in pairs:
        if t.get_id() in seen:
            continue
        seen[t.get_id()] = v
        uniq.append((t, v))
    for name, arr in fresh.items():
        src = np.asarray(exports[name], dtype=object)
        for idx in np.ndindex(*arr.shape) if arr.shape else [()]:
            t = src[idx]
            if isinstance(t, z3.ExprRef) and t.get_id() in seen:
                arr[idx] = seen[t.get_id()]
    uniq.sort(key=lambda p: -_term_size(p[0]))
    return apply_pairs(targets, uniq), fresh, uniq


def apply_pairs(targets, pairs):
    def sub(x):
        if isinstance(x, z3.ExprRef):
            for t, v in pairs:
                x = z3.substitute(x, (t, v))
            return x
        return x
    leaves, td = jax.tree_util.tree_flatten(targets)
    new = []
    for leaf in leaves:
        a = np.asarray(leaf, dtype=object)
        o = np.empty(a.shape, dtype=object)
        for idx in np.ndindex(*a.shape) if a.shape else [()]:
            o[idx] = sub(a[idx])
        new.append(o)
    return jax.tree_util.tree_unflatten(td, new)


def _term_size(t):
    """Number of distinct DAG nodes.  (No cross-call cache: z3 AST ids are recycled after GC.)"""
    seen, stack = set(), [t]
    while stack:
        e = stack.pop()
        if e.get_id() in seen:
            continue
        seen.add(e.get_id())
        stack.extend(e.children())
    return len(seen)


def leftover_symbols(tree, allowed):
    """Names of z3 constants occurring in tree that are not in `allowed` (ids)."""
    out = set()
    seen = set()
    stack = [e for l in jax.tree_util.tree_leaves(tree) for e in np.asarray(l, dtype=object).reshape(-1) if isinstance(e, z3.ExprRef)]
    while stack:
        e = stack.pop()
        if e.get_id() in seen:
            continue
        seen.add(e.get_id())
        if z3.is_const(e) and e.decl().kind() == z3.Z3_OP_UNINTERPRETED:
            if e.get_id() not in allowed:
                out.add(str(e))
        stack.extend(e.children())
    return out
