"""C14 Tabular learners apply their textbook update to exactly one entry (E1; Dyna-Q model: E2)."""
from __future__ import annotations

from fractions import Fraction

import jax
import jax.numpy as jnp
import numpy as np
import z3

from props.common import E1, tier_params
from symcore import sarray as S
from symcore import values as V
from symcore.evidence import Report
from symcore.solver import Session

PROP = "C14"


def in_range(x, n):
    x = S.SA(x)
    return [x >= 0, x < n]


def table_sel(q, s, a, nS, nA):
    """q[s, a] for symbolic in-range s, a as an ite chain (oracle side)."""
    q = S.SA(q)
    acc = q[nS - 1, nA - 1]
    for i in range(nS - 1, -1, -1):
        for j in range(nA - 1, -1, -1):
            if (i, j) == (nS - 1, nA - 1):
                continue
            acc = S.where(S.SA(s).eq(i) & S.SA(a).eq(j), q[i, j], acc)
    return acc


def row_max(q, s, nS, nA):
    q = S.SA(q)
    acc = q[nS - 1].max()
    for i in range(nS - 2, -1, -1):
        acc = S.where(S.SA(s).eq(i), q[i].max(), acc)
    return acc


def row_argmax_val(qsel, qval, s, nS, nA):
    """qval[s, argmax_a qsel[s, a]] (first maximiser)."""
    qsel, qval = S.SA(qsel), S.SA(qval)
    acc = None
    for i in range(nS - 1, -1, -1):
        # first maximiser of row i
        best_v, best_q = qsel[i, 0], qval[i, 0]
        for j in range(1, nA):
            c = qsel[i, j] > best_v
            best_q = S.where(c, qval[i, j], best_q)
            best_v = S.where(c, qsel[i, j], best_v)
        acc = best_q if acc is None else S.where(S.SA(s).eq(i), best_q, acc)
    return acc


def expect_single_entry(qin, qout, s, a, new_val, nS, nA):
    goals = []
    qin, qout = S.SA(qin), S.SA(qout)
    for i in range(nS):
        for j in range(nA):
            hit = S.SA(s).eq(i) & S.SA(a).eq(j)
            goals.append(S.close(qout[i, j], S.where(hit, new_val, qin[i, j])))
    return goals


def main(tier, seed):
    from rl_blox.algorithm import double_q_learning, dynaq, monte_carlo, q_learning, sarsa
    from rl_blox.blox.value_policy import greedy_policy

    tp = tier_params(tier)
    rep = Report(PROP, tier, seed)
    sess = Session(tp["timeout"])
    sess.keep_smt2 = tier == "thorough"
    shapes = [(3, 2)] if tier == "quick" else [(3, 2), (2, 3), (4, 2)]
    rep.bounds = {"tables": shapes, "indices": "symbolic ints in range", "monte_carlo_episode_len": [1, 2] if tier == "quick" else [1, 2, 3],
                  "values": "all reals for table entries, reward, gamma, learning rate; terminated in {0,1}"}
    rep.assumptions = ["real-number semantics", "state/action indices within the table", "terminated flag in {0,1}",
                       "arg-max ties resolved to the first maximiser (jnp.argmax semantics) on both sides"]
    rng = np.random.default_rng(seed)

    for (nS, nA) in shapes:
        q0 = jnp.array(rng.normal(size=(nS, nA)), dtype=jnp.float32)
        q1 = jnp.array(rng.normal(size=(nS, nA)), dtype=jnp.float32)

        # ---- SARSA: _update_policy(q, s, a, r, s', a', gamma, lr, term)
        ex = (q0, 1, 0, 0.5, 2, 1, 0.9, 0.1, 0.0)
        e = E1(rep, sess, sarsa._update_policy, ex, f"sarsa._update_policy[{nS}x{nA}]", validate_sets=[ex, (q1, 0, 1, -1.0, 0, 1, 0.5, 0.3, 1.0)])
        q, s, a, r, s2, a2, g, lr, tm = e.ins
        e.add_hyp(*in_range(s, nS), *in_range(a, nA), *in_range(s2, nS), *in_range(a2, nA), S.SA(tm).eq(0) | S.SA(tm).eq(1))
        e.check_reachable()

        def sarsa_spec(i, o):
            q, s, a, r, s2, a2, g, lr, tm = i
            cur = table_sel(q, s, a, nS, nA)
            vnext = table_sel(q, s2, a2, nS, nA)
            new = cur + S.SA(lr) * (S.SA(r) + S.SA(g) * (1 - S.SA(tm)) * vnext - cur)
            return expect_single_entry(q, o, s, a, new, nS, nA)
        e.obligation("only-(s,a)-moves-by-lr*(r+gamma(1-term)Q(s',a')-Q(s,a))", sarsa_spec)

        # ---- Q-learning: the update composed with the greedy successor action exactly as train_q_learning composes it
        def ql(q, s, a, r, s2, g, tm, lr):
            return q_learning._update_policy(q, s, a, r, s2, greedy_policy(q, s2), g, tm, lr)
        ex = (q0, 1, 0, 0.5, 2, 0.9, 0.0, 0.1)
        e = E1(rep, sess, ql, ex, f"q_learning._update_policy∘greedy_policy[{nS}x{nA}]", validate_sets=[ex, (q1, 0, 1, -1.0, 0, 0.5, 1.0, 0.3)])
        q, s, a, r, s2, g, tm, lr = e.ins
        e.add_hyp(*in_range(s, nS), *in_range(a, nA), *in_range(s2, nS), S.SA(tm).eq(0) | S.SA(tm).eq(1))
        e.check_reachable()

        def ql_spec(i, o):
            q, s, a, r, s2, g, tm, lr = i
            cur = table_sel(q, s, a, nS, nA)
            new = cur + S.SA(lr) * (S.SA(r) + S.SA(g) * (1 - S.SA(tm)) * row_max(q, s2, nS, nA) - cur)
            return expect_single_entry(q, o, s, a, new, nS, nA)
        e.obligation("only-(s,a)-moves-toward-r+gamma(1-term)max_a'Q(s',a')", ql_spec)

        # ---- double Q-learning
        def dql(qa, qb, s, a, r, s2, g, lr, tm):
            return double_q_learning._dql_update(jax.random.key(0), qa, qb, s, a, r, s2, g, lr, tm)
        ex = (q0, q1, 1, 0, 0.5, 2, 0.9, 0.1, 0.0)
        e = E1(rep, sess, dql, ex, f"double_q_learning._dql_update[{nS}x{nA}]", validate_sets=[ex, (q1, q0, 0, 1, -1.0, 0, 0.5, 0.3, 1.0)])
        qa, qb, s, a, r, s2, g, lr, tm = e.ins
        e.add_hyp(*in_range(s, nS), *in_range(a, nA), *in_range(s2, nS), S.SA(tm).eq(0) | S.SA(tm).eq(1))
        e.check_reachable()

        def dql_spec(i, o):
            qa, qb, s, a, r, s2, g, lr, tm = i
            cur = table_sel(qa, s, a, nS, nA)
            vnext = row_argmax_val(qa, qb, s2, nS, nA)  # other table's value of the updated table's greedy action at the successor
            new = cur + S.SA(lr) * (S.SA(r) + S.SA(g) * (1 - S.SA(tm)) * vnext - cur)
            return expect_single_entry(qa, o, s, a, new, nS, nA)
        e.obligation("updated-table-moves-toward-r+gamma(1-term)Q_other(s',argmax Q_updated(s',.))", dql_spec,
                     site="double_q_learning._dql_update:greedy-action-selected-at-successor")

        # ---- Dyna-Q direct / replayed update
        def dq(s, a, r, s2, g, lr, q):
            return dynaq.q_learning_update(s, a, r, s2, g, lr, q)
        ex = (1, 0, 0.5, 2, 0.9, 0.1, q0)
        e = E1(rep, sess, dq, ex, f"dynaq.q_learning_update[{nS}x{nA}]", validate_sets=[ex, (0, 1, -1.0, 0, 0.5, 0.3, q1)])
        s, a, r, s2, g, lr, q = e.ins
        e.add_hyp(*in_range(s, nS), *in_range(a, nA), *in_range(s2, nS))
        e.check_reachable()

        def dq_spec(i, o):
            s, a, r, s2, g, lr, q = i
            cur = table_sel(q, s, a, nS, nA)
            new = cur + S.SA(lr) * (S.SA(r) + S.SA(g) * row_max(q, s2, nS, nA) - cur)
            return expect_single_entry(q, o, s, a, new, nS, nA)
        e.obligation("greedy-successor-update-on-one-entry", dq_spec)

        # ---- Monte-Carlo control: running mean of discounted returns per visit
        for L in rep.bounds["monte_carlo_episode_len"]:
            nv0 = jnp.array(rng.integers(0, 3, size=(nS, nA)), dtype=jnp.float32)
            ex = (q0, nv0, jnp.array(rng.normal(size=L), dtype=jnp.float32), jnp.array(rng.integers(0, nS, L), dtype=jnp.int32),
                  jnp.array(rng.integers(0, nA, L), dtype=jnp.int32), 0.9)
            e = E1(rep, sess, lambda q, n, r, o, a, g: tuple(monte_carlo.update(q, n, r, o, a, g)), ex, f"monte_carlo.update[{nS}x{nA},L={L}]", validate_sets=[ex])
            q, nv, rw, ob, ac, g = e.ins
            e.add_hyp(*in_range(ob, nS), *in_range(ac, nA), S.SA(nv) >= 0)
            e.check_reachable()

            def mc_spec(i, o, L=L):
                q, nv, rw, ob, ac, g = (S.SA(x) for x in i)
                G = S.SA(Fraction(0))
                for t in range(L - 1, -1, -1):
                    G = rw[t] + g * G
                    newq = np.empty((nS, nA), dtype=object)
                    newn = np.empty((nS, nA), dtype=object)
                    for si in range(nS):
                        for aj in range(nA):
                            hit = ob[t].eq(si) & ac[t].eq(aj)
                            n1 = nv[si, aj] + 1
                            newn[si, aj] = S.where(hit, n1, nv[si, aj]).item()
                            newq[si, aj] = S.where(hit, q[si, aj] + (1 / n1) * (G - q[si, aj]), q[si, aj]).item()
                    q, nv = S.SA(newq), S.SA(newn)
                return [S.close(S.SA(o[0]), q), S.close(S.SA(o[1]), nv)]
            import itertools
            cases = []
            for combo in itertools.product(range(nS * nA), repeat=L):
                c = True
                for t, v in enumerate(combo):
                    c = V.s_and(c, V.s_and(S.SA(ob)[t].eq(v // nA).item(), S.SA(ac)[t].eq(v % nA).item()))
                cases.append(("visits=" + ",".join(f"({v // nA},{v % nA})" for v in combo), c))
            e.obligation("running-mean-of-discounted-returns-per-visit", mc_spec, cases=cases)

    _dynaq_model(rep, tier, seed)
    _dynaq_train_model(rep, tier, seed)
    if tier == "thorough":
        bad = sess.cross_check()
        rep.extra["cvc5_disagreements"] = bad
        if bad:
            rep.inconclusive_("cross-check", f"{bad} z3/cvc5 disagreements")
    rep.add_queries(sess)
    rep.samples = [o["name"] for o in rep.obligations if o["kind"] == "obligation"][:12]
    return rep.finish()


class AtArr(np.ndarray):
    """object ndarray with jax's functional `.at[idx].set(v)` (plus .add / .multiply / .get)"""

    def __new__(cls, arr):
        return np.asarray(arr, dtype=object).view(cls)

    @property
    def at(self):
        outer = self

        class _At:
            def __getitem__(self_, idx):
                class _Set:
                    def set(self__, v):
                        new = AtArr(np.array(outer, dtype=object, copy=True))
                        if isinstance(v, (list, np.ndarray)) or hasattr(v, "shape") and getattr(v, "shape", ()) != ():
                            vv = np.empty(len(v), dtype=object)
                            for k_, x in enumerate(list(v)):
                                vv[k_] = x
                            np.ndarray.__setitem__(new, idx, vv)
                        else:
                            np.ndarray.__setitem__(new, idx, v)
                        return new

                    def add(self__, v):
                        return self__.set(np.ndarray.__getitem__(outer, idx) + v)

                    def multiply(self__, v):
                        return self__.set(np.ndarray.__getitem__(outer, idx) * v)

                    def get(self__):
                        return np.ndarray.__getitem__(outer, idx)
                return _Set()
        return _At()


def _dynaq_model(rep, tier, seed):
    """Dyna-Q's learned model = empirical successor frequencies and mean rewards of the observed transitions (E2:
    the real counter_update / model_update run on symbolic state/action/successor indices and symbolic rewards)."""
    from e2_pysym import core as E
    from e2_pysym.core import sym_int, sym_real
    from props.e2common import E2Report, overlay
    from rl_blox.algorithm import dynaq
    e2 = E2Report(PROP, tier, seed)
    e2.r = rep
    nS, nA = 2, 2
    K = 3 if tier == "quick" else 4

    class JnpShim:
        def __getattr__(self, k):
            import jax.numpy as jnp
            return getattr(jnp, k)

        @staticmethod
        def asarray(x, *a, **k):
            return AtArr(np.asarray(list(x), dtype=object))

        array = asarray

    def prog(ctx):
        counter = dynaq.Counter(transition_counter=[[[0 for _ in range(nS)] for _ in range(nA)] for _ in range(nS)],
                                reward_history=[[[[] for _ in range(nS)] for _ in range(nA)] for _ in range(nS)])
        model = dynaq.ForwardModel(transition=AtArr(np.zeros((nS, nA, nS), dtype=object)), reward=AtArr(np.zeros((nS, nA, nS), dtype=object)))
        hist = []
        with overlay(dynaq, jnp=JnpShim()):
            for i in range(K):
                s_, a_, n_ = int(sym_int(f"s{i}", 0, nS - 1)), int(sym_int(f"a{i}", 0, nA - 1)), int(sym_int(f"n{i}", 0, nS - 1))
                r_ = sym_real(f"r{i}")
                counter = dynaq.counter_update(counter, s_, a_, r_, n_)
                model = dynaq.model_update(model, counter, s_, a_, n_)
                hist.append((s_, a_, n_, r_))
                for s in range(nS):
                    for a in range(nA):
                        visits = [(n, r) for (s0, a0, n, r) in hist if (s0, a0) == (s, a)]
                        if not visits:
                            continue
                        for n in range(nS):
                            cnt = len([1 for (n0, _) in visits if n0 == n])
                            ctx.check(model.transition[s, a, n] * len(visits) == cnt, "dynaq-model:transition=empirical-successor-frequencies")
                            if cnt:
                                tot = 0
                                for (n0, r0) in visits:
                                    if n0 == n:
                                        tot = tot + r0
                                ctx.check(model.reward[s, a, n] * cnt == tot, "dynaq-model:reward=mean-of-observed-rewards")
    e2.run("dynaq.counter_update/model_update", prog, fn="rl_blox.algorithm.dynaq.counter_update/model_update", site_of=lambda label: f"dynaq.model_update:{label}")
    rep.bounds["dynaq_model"] = f"{nS} states x {nA} actions, histories of {K} symbolic transitions (stochastic successors), symbolic rewards"


def _dynaq_train_model(rep, tier, seed):
    """The model that the real train_dynaq loop maintains (its own Counter / ForwardModel initialisation, the real
    counter_update / model_update) equals the empirical frequencies / mean rewards of the transitions the environment produced.
    Environment successor, reward and the behaviour action are symbolic; Q-updates and planning are identity stubs."""
    from e2_pysym import core as E
    from e2_pysym.core import sym_int, sym_real
    from props.e2common import E2Report, overlay
    from rl_blox.algorithm import dynaq
    e2 = E2Report(PROP, tier, seed)
    e2.r = rep
    nS, nA = 2, 2
    K = 3 if tier == "quick" else 4

    class JnpShim:
        def __getattr__(self, k):
            import jax.numpy as jnp
            return getattr(jnp, k)

        @staticmethod
        def asarray(x, *a, **k):
            return AtArr(np.asarray(list(x), dtype=object))

        array = asarray

        @staticmethod
        def zeros(shape, *a, **k):
            return AtArr(np.zeros(shape, dtype=object))

    def prog(ctx):
        hist, models = [], []

        class Env:
            def __init__(self):
                self.k = 0
                self.obs = 0

            def reset(self, seed=None):
                # thorough (K = 4): concrete reset state, otherwise 16^4 paths; every (s, a) is still reached through the symbolic successors
                self.obs = int(sym_int(f"reset{self.k}", 0, nS - 1)) if K <= 3 else 0
                return self.obs, {}

            def step(self, act):
                n_ = int(sym_int(f"n{self.k}", 0, nS - 1))
                r_ = sym_real(f"r{self.k}")
                done = bool(E.sym_bool(f"terminated{self.k}"))
                hist.append((self.obs, int(act), n_, r_))
                self.obs = n_
                self.k += 1
                return n_, r_, done, False, {}

        def eps_greedy(q, obs, *a, **k):
            return int(sym_int(f"a{len(hist)}", 0, nA - 1))

        real_update = dynaq.model_update

        def spy(model, counter, *a):
            m = real_update(model, counter, *a)
            models.append(dynaq.ForwardModel(transition=m.transition, reward=m.reward))  # snapshot: the model object is updated in place
            return m

        with overlay(dynaq, jnp=JnpShim(), epsilon_greedy_policy=eps_greedy, q_learning_update=lambda *a: a[-1], planning=lambda *a: a[-1],
                     model_update=spy, float=lambda x: x, trange=lambda n, **k: range(n)):
            dynaq.train_dynaq(Env(), np.zeros((nS, nA)), total_timesteps=K, n_planning_steps=1, progress_bar=False)
        ctx.check(len(models) == K and len(hist) == K, "dynaq-train:model-updated-once-per-step")
        for i, model in enumerate(models):
            seen = hist[: i + 1]
            for s in range(nS):
                for a in range(nA):
                    visits = [(n, r) for (s0, a0, n, r) in seen if (s0, a0) == (s, a)]
                    if not visits:
                        continue
                    for n in range(nS):
                        cnt = len([1 for (n0, _) in visits if n0 == n])
                        ctx.check(model.transition[s, a, n] * len(visits) == cnt, "dynaq-train:model-transition=empirical-successor-frequencies")
                        if cnt:
                            tot = 0
                            for (n0, r0) in visits:
                                if n0 == n:
                                    tot = tot + r0
                            ctx.check(model.reward[s, a, n] * cnt == tot, "dynaq-train:model-reward=mean-of-observed-rewards")
    e2.run("dynaq.train_dynaq[model]", prog, fn="rl_blox.algorithm.dynaq.train_dynaq/counter_update/model_update", site_of=lambda label: f"dynaq.train_dynaq:{label}")
    rep.bounds["dynaq_train_model"] = f"real train_dynaq loop, {nS} states x {nA} actions, {K} steps, symbolic action / successor / reward / termination per step" + (", symbolic reset state" if K <= 3 else ", reset state 0")


def replay(path):
    import json
    print(json.dumps(json.load(open(path)), indent=1))
    return main("quick", 0)
