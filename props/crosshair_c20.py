"""CrossHair twin (independent second engine, thorough tier only) for C20's checkpoint-cadence inductive step:
one record_epoch of the REAL OrbaxCheckpointer from an arbitrary (last_step, interval) writes a checkpoint exactly
when the recorded step has passed a multiple of the interval since the previous record."""
from rl_blox.logging.checkpointer import OrbaxCheckpointer


class _Ck(OrbaxCheckpointer):
    def __init__(self):  # no directories, no orbax: only the fields record_epoch / _save_checkpoint read
        self.saved = 0
        self.epoch = {}
        self.lpad_keys = 0
        self._n_episodes = 0
        self.n_steps = 0
        self.verbose = 0
        self.checkpoint_frequencies = {}
        self.checkpoint_path = {}
        self.last_step = {}
        self.checkpoint_dir = "/nonexistent"
        self.env_name = "e"
        self.algorithm_name = "a"
        self.start_time = 0

    def save_model(self, path, model):
        self.saved += 1


def _one(last: int, step: int, interval: int) -> bool:
    ck = _Ck()
    ck.checkpoint_frequencies["q"] = interval
    ck.checkpoint_path["q"] = []
    ck.last_step["q"] = last
    ck.record_epoch("q", None, episode=0, step=step)
    passed = step // interval > last // interval
    return (ck.saved == (1 if passed else 0)) and ck.last_step["q"] == step and len(ck.checkpoint_path["q"]) == ck.saved


# division by a symbolic interval is non-linear for the solver: one twin per concrete interval (unbounded last/step)
def cadence_twin_3(last: int, step: int) -> bool:
    """
    pre: 0 <= last <= step
    post: _
    """
    return _one(last, step, 3)


def cadence_twin_10(last: int, step: int) -> bool:
    """
    pre: 0 <= last <= step
    post: _
    """
    return _one(last, step, 10)


def cadence_twin_sym(last: int, step: int, interval: int) -> bool:
    """
    pre: 0 <= last <= step <= 40 and 1 <= interval <= 12
    post: _
    """
    return _one(last, step, interval)
