"""C08 Prioritized replay samples proportionally and tracks priorities correctly (E2 + E1)."""
from __future__ import annotations

import contextlib
from fractions import Fraction

import jax.numpy as jnp
import numpy as np
import z3

from e2_pysym import core as E
from e2_pysym.core import sym_bool, sym_int, sym_real
from e2_pysym.npshim import JnpShim, NpShim, RngStub, SymArr, is_poison
from props.e2common import E2Report, overlay

PROP = "C08"


def _ov(ctx):
    from rl_blox.blox import replay_buffer as rb
    sym = not getattr(ctx, "is_replay", False)
    return overlay(rb, np=NpShim(), jnp=JnpShim())


def _arr(ctx, xs):
    if getattr(ctx, "is_replay", False):
        return np.asarray([float(x) for x in xs])
    return SymArr(np.asarray(list(xs), dtype=object))


def interval_law(ctx, idx, point, weights, label):
    """index i is the one whose cumulative interval contains the drawn point: C_{i-1} < x <= C_i."""
    c_prev = 0
    for j in range(idx):
        c_prev = c_prev + weights[j]
    c_i = c_prev + weights[idx]
    ctx.check((c_prev < point) & (point <= c_i), label + ":drawn-index-is-the-cumulative-interval-containing-u*total")
    ctx.check(weights[idx] > 0, label + ":selected-entry-has-positive-unmasked-priority")


def sampling_program(n, use_mask, stratified, B):
    from rl_blox.blox import replay_buffer as rb

    def prog(ctx):
        with _ov(ctx):
            ps = [sym_real(f"p{j}", 0, None, lo_open=True) for j in range(n)]
            cur_len = int(sym_int("current_len", 1, n))
            mask = None
            if use_mask:
                mvals = [sym_int(f"m{j}", 0, 1) for j in range(n)]
                tot = 0
                for j in range(cur_len):
                    tot = tot + mvals[j]
                ctx.assume(tot >= 1)
                mask = _arr(ctx, mvals) if getattr(ctx, "is_replay", False) else SymArr(np.asarray(mvals, dtype=object))
            rng = RngStub()
            if stratified:
                buf = rb.PrioritizedReplayBuffer(n)
                buf.priority.priority = _arr(ctx, ps)
                idxs = buf.prioritized_sampling_stratified(cur_len, B, rng, mask)
                stored = buf.priority.priority
            else:
                pb = rb.PriorityBuffer(n)
                pb.priority = _arr(ctx, ps)
                idxs = pb.prioritized_sampling(cur_len, B, rng, mask)
                stored = pb.priority
            for j in range(n):
                ctx.check(stored[j] == ps[j], "sampling-leaves-the-stored-priorities-unchanged")
            ctx.check(len(idxs) == B, "one-index-per-requested-sample")
            w = [ps[j] * (mvals[j] if use_mask else 1) for j in range(cur_len)]
            total = 0
            for x in w:
                total = total + x
            points = rng.draws[-1][1]
            for b in range(B):
                i = int(idxs[b])
                ctx.check((0 <= i) & (i < cur_len), "index-within-the-filled-region")
                pt = points[b] * total if not stratified else points[b]
                interval_law(ctx, i, pt, w, "stratified" if stratified else "inverse-cdf")
                if stratified:
                    seg = total / B
                    ctx.check((b * seg <= pt) & (pt <= (b + 1) * seg), "stratified:one-point-per-segment")
    return prog


def bookkeeping_program(cls_name, N, n_ops, tier_quick=True):
    from rl_blox.blox import replay_buffer as rb

    def prog(ctx):
        with _ov(ctx):
            buf = getattr(rb, cls_name)(N)
            stored = {}  # slot -> reference priority
            n_added = 0
            last = None
            n_init = int(sym_int("n_initial_adds", 1, N + 2))
            for i in range(n_init + n_ops):
                op = 0 if i < n_init else sym_int(f"op{i}", 0, 3)
                if op == 0:
                    slot = buf.insert_idx
                    before = buf.priority.max_priority
                    buf.add_sample(observation=[sym_real(f"o{i}")], action=sym_real(f"a{i}"), reward=sym_real(f"r{i}"), next_observation=[sym_real(f"n{i}")], termination=sym_bool(f"t{i}"))
                    n_added += 1
                    stored[int(slot)] = before  # overwriting a slot replaces its reference priority
                    ctx.check(buf.priority.priority[int(slot)] == before, "new-transition-receives-the-current-maximum-priority")
                    ctx.log.append("add")
                elif op == 1:
                    out = buf.sample_batch(1, RngStub(f"rng{i}"))
                    last = [int(x) for x in (buf.priority.sampled_indices if cls_name == "LAP" else getattr(buf, "sampled_indices", buf.priority.sampled_indices))]
                    for ix in last:
                        ctx.check((0 <= ix) & (ix < len(buf)), "sampled-index-within-the-filled-region")
                    ctx.log.append(f"sample{last}")
                elif op == 2:
                    if last is None:
                        continue
                    vals = [sym_real(f"v{i}_{k}", 0, None, lo_open=True) for k in range(len(last))]
                    try:
                        buf.update_priority(_arr(ctx, vals))
                    except Exception as ex:  # the real code rejects a per-sample priority vector for its own last batch
                        ctx.log.append(f"update_priority raised {type(ex).__name__}: {ex}")
                        ctx.check(False, "priority-update-sets-exactly-the-last-sampled-batch")
                    for k, ix in enumerate(last):  # last duplicate wins
                        stored[ix] = vals[k]
                    ctx.log.append("update_priority")
                    for slot, ref in stored.items():
                        ctx.check(buf.priority.priority[slot] == ref, "priority-update-sets-exactly-the-last-sampled-batch",
                                  detail="PrioritizedReplayBuffer" if cls_name != "LAP" else None)
                else:
                    buf.reset_max_priority()
                    true_max = None
                    for slot, ref in stored.items():
                        true_max = ref if true_max is None else E.wrap(z3.If(E.V.to_z3(E.V.to_real(E.unwrap(ref))) >= E.V.to_z3(E.V.to_real(E.unwrap(true_max))),
                                                                                 E.V.to_z3(E.V.to_real(E.unwrap(ref))), E.V.to_z3(E.V.to_real(E.unwrap(true_max))))) \
                            if not getattr(ctx, "is_replay", False) else max(ref, true_max)
                    ctx.check(buf.priority.max_priority == true_max, "tracked-maximum=true-maximum-after-reset")
                    ctx.log.append("reset_max")
                for slot, ref in stored.items():
                    ctx.check(buf.priority.max_priority >= buf.priority.priority[slot], "tracked-maximum>=every-stored-priority")
    return prog


def subtrajectory_priority_program(K):
    from rl_blox.blox import replay_buffer as rb

    def prog(ctx):
        with _ov(ctx):
            buf = rb.SubtrajectoryReplayBufferPER(4, horizon=1)
            buf.priority.max_priority = mp = sym_real("max_priority", 0, None, lo_open=True)
            for i in range(K):
                term, trunc = bool(sym_bool(f"term{i}")), bool(sym_bool(f"trunc{i}"))
                slot = int(buf.insert_idx)
                buf.add_sample(observation=[float(i)], action=float(i), reward=sym_real(f"r{i}"), next_observation=[float(i) + 0.5], terminated=int(term), truncated=int(trunc))
                p = buf.priority.priority[slot]
                ctx.check((not is_poison(p)) and (p == mp), "new-transition-receives-the-current-maximum-priority")
                if term or trunc:  # the appended successor row is initialised too
                    p2 = buf.priority.priority[(slot + 1) % 4]
                    ctx.check((not is_poison(p2)) and (p2 == mp), "new-transition-receives-the-current-maximum-priority")
    return prog


def subtrajectory_reset_program(K):
    """reset_max_priority of the prioritized subtrajectory buffer: the tracked maximum is the maximum over EVERY stored
    priority of the filled region - the most recent (temporarily masked) transitions become valid starts a few steps
    later and still carry their priority."""
    from rl_blox.blox import replay_buffer as rb

    def prog(ctx):
        with _ov(ctx):
            buf = rb.SubtrajectoryReplayBufferPER(6, horizon=2)
            for i in range(K):
                last = i == K - 1
                term = bool(sym_bool("term_last")) if last else False
                buf.add_sample(observation=[float(i)], action=float(i), reward=0.0, next_observation=[float(i) + 0.5], terminated=int(term), truncated=0)
            n = int(buf.current_len)
            ps = [sym_real(f"p{j}", 0, None, lo_open=True) for j in range(n)]
            for j in range(n):
                buf.priority.priority[j] = ps[j]
            buf.reset_max_priority()
            mx = buf.priority.max_priority
            hit = False
            for j in range(n):
                ctx.check(mx >= ps[j], "tracked-maximum>=every-stored-priority-after-reset(masked-entries-included)")
                hit = (mx == ps[j]) | hit
            ctx.check(hit, "tracked-maximum-is-a-stored-priority-after-reset")
    return prog


def weights_program(n, B):
    from rl_blox.blox import replay_buffer as rb

    def prog(ctx):
        with _ov(ctx):
            buf = rb.PrioritizedReplayBuffer(n)
            ps = [sym_real(f"p{j}", 0, None, lo_open=True) for j in range(n)]
            buf.priority.priority = _arr(ctx, ps)
            buf.current_len = n
            beta = sym_real("beta", 0, 1)
            idx = [int(sym_int(f"i{b}", 0, n - 1)) for b in range(B)]
            w = buf.compute_importance_ratio(np.asarray(idx), beta)
            mx_seen = False
            for b in range(B):
                ctx.check((w[b] > 0) & (w[b] <= 1), "importance-weights-in-(0,1]")
                mx_seen = (w[b] == 1) | mx_seen
                for c in range(B):
                    ctx.check(~(ps[idx[b]] < ps[idx[c]]) | (w[b] >= w[c]), "importance-weights-non-increasing-in-priority")
            ctx.check(mx_seen, "maximum-importance-weight-is-1")
    return prog


def multitask_routing(ctx):
    from rl_blox.blox import replay_buffer as rb
    with _ov(ctx):
        mt = rb.MultiTaskReplayBuffer(rb.LAP(2), 2)
        for t in range(2):
            mt.select_task(t)
            for i in range(2):
                mt.add_sample(observation=[sym_real(f"o{t}{i}")], action=sym_real(f"a{t}{i}"), reward=sym_real(f"r{t}{i}"), next_observation=[sym_real(f"n{t}{i}")], termination=sym_bool(f"t{t}{i}"))
        mt.sample_batch(2, rng=RngStub())
        src = int(mt.sampled_task_idx)
        idx = [int(x) for x in mt.buffers[src].priority.sampled_indices]
        other = 1 - src
        before_other = [mt.buffers[other].priority.priority[k] for k in range(2)]
        vals = [sym_real(f"v{k}", 0, None, lo_open=True) for k in range(2)]
        try:
            mt.update_priority(_arr(ctx, vals))
        except Exception as ex:
            ctx.log.append(f"update_priority raised {type(ex).__name__}: {ex}")
            ctx.check(False, "multi-task:update-routed-to-the-task-that-produced-the-last-batch")
        for k in range(2):
            ctx.check(mt.buffers[other].priority.priority[k] == before_other[k], "multi-task:update-does-not-touch-other-tasks")
        ref = {}
        for k, ix in enumerate(idx):
            ref[ix] = vals[k]
        for ix, v in ref.items():
            ctx.check(mt.buffers[src].priority.priority[ix] == v, "multi-task:update-routed-to-the-task-that-produced-the-last-batch")


def _priority_formulas(rep, tier, seed):
    """lap_priority / per_priority: positive and non-decreasing in |delta| (E1)."""
    from props.common import E1
    from rl_blox.blox import replay_buffer as rb
    from symcore import sarray as S
    from symcore.solver import Session
    sess = Session(20)

    def un(f):
        return getattr(f, "__wrapped__", f)
    lap, per = un(rb.lap_priority), un(rb.per_priority)
    e = E1(rep.r, sess, lambda d, mp, al: lap(d, mp, al), (jnp.array([0.5, 2.0]), 1.0, 0.4), "lap_priority")
    d, mp, al = (S.SA(x) for x in e.ins)
    e.add_hyp(d >= 0, mp > 0, al > 0, al <= 1)
    e.check_reachable()
    e.obligation("positive", lambda i, o: S.SA(o) > 0)
    e.obligation("non-decreasing-in-abs-error", lambda i, o: (~(S.SA(i[0])[0] <= S.SA(i[0])[1])) | (S.SA(o)[0] <= S.SA(o)[1]))
    e = E1(rep.r, sess, lambda d, al, ep: per(d, al, ep), (jnp.array([0.5, 2.0]), 0.6, 1e-6), "per_priority")
    d, al, ep = (S.SA(x) for x in e.ins)
    e.add_hyp(d >= 0, ep > 0, al > 0, al <= 1)
    e.check_reachable()
    e.obligation("positive", lambda i, o: S.SA(o) > 0)
    e.obligation("non-decreasing-in-abs-error", lambda i, o: (~(S.SA(i[0])[0] <= S.SA(i[0])[1])) | (S.SA(o)[0] <= S.SA(o)[1]))
    rep.r.add_queries(sess)


def main(tier, seed):
    rep = E2Report(PROP, tier, seed)
    ns = [2, 3] if tier == "quick" else [2, 3, 4]
    rep.r.bounds = {"priority_vector_len": ns, "batch": [1, 2], "bookkeeping_ops": 3 if tier == "quick" else 4, "capacity": 2,
                    "uniform variates": "symbolic reals in the OPEN interval (0,1)", "priorities": "symbolic reals > 0; mask entries symbolic in {0,1} with >=1 valid"}
    rep.r.assumptions = ["real arithmetic (rounding of u*total outside the claim)", "x**y is uninterpreted with sound ground axioms (positivity, monotonicity in the base, x**0=1)",
                         "probability p_i/sum(p): shown as 'index i is returned exactly for u*total in (C_{i-1}, C_i]', an interval of length p_i*mask_i; the measure-theoretic step (u uniform) is trusted",
                         "numpy allocation shim + generator stub as in C02"]
    rep.r.stubs = ["np (allocation only)", "jnp.asarray", "np.random.Generator -> RngStub"]
    for n in ns:
        for use_mask in (False, True):
            rep.run(f"PriorityBuffer.prioritized_sampling[n={n},mask={use_mask}]", sampling_program(n, use_mask, False, 2 if n < 4 else 1), fn="PriorityBuffer.prioritized_sampling")
        rep.run(f"PrioritizedReplayBuffer.prioritized_sampling_stratified[n={n}]", sampling_program(n, False, True, 2), fn="PrioritizedReplayBuffer.prioritized_sampling_stratified")
    for cls in ("LAP", "PrioritizedReplayBuffer"):
        rep.run(f"{cls}:priority-bookkeeping", bookkeeping_program(cls, 2, rep.r.bounds["bookkeeping_ops"], tier == "quick"), max_paths=60000, fn=f"{cls}.add_sample/sample_batch/update_priority/reset_max_priority",
                site_of=(lambda label, cls=cls: f"{cls}:{label}"))
    rep.run("SubtrajectoryReplayBufferPER:new-priorities", subtrajectory_priority_program(3 if tier == "quick" else 5), fn="SubtrajectoryReplayBufferPER.add_sample/initialize_priority",
            site_of=lambda label: f"SubtrajectoryReplayBufferPER:{label}")
    rep.run("SubtrajectoryReplayBufferPER:reset_max_priority", subtrajectory_reset_program(3 if tier == "quick" else 4), fn="SubtrajectoryReplayBufferPER.reset_max_priority",
            site_of=lambda label: f"SubtrajectoryReplayBufferPER:{label}")
    for n in ([2] if tier == "quick" else [2, 3]):
        rep.run(f"compute_importance_ratio[n={n}]", weights_program(n, 2), fn="PrioritizedReplayBuffer.compute_importance_ratio")
    rep.run("MultiTaskReplayBuffer(LAP):update-routing", multitask_routing, fn="MultiTaskReplayBuffer.update_priority")
    _priority_formulas(rep, tier, seed)
    return rep.finish()


def replay(path):
    import json
    print(json.dumps(json.load(open(path)), indent=1))
    return main("quick", 0)
