"""C15 Deferred training releases exactly the collected steps; checkpoints only improve (E2)."""
from __future__ import annotations

from fractions import Fraction

import z3

from e2_pysym import core as E
from e2_pysym.core import sym_int, sym_real
from props.e2common import E2Report

PROP = "C15"
BIG = Fraction(10**8)


def smin(a, b):
    """reference min on proxies/numbers without forking"""
    return E.wrap(z3.If(E.V.to_z3(E.V.to_real(E.unwrap(a))) <= E.V.to_z3(E.V.to_real(E.unwrap(b))), E.V.to_z3(E.V.to_real(E.unwrap(a))), E.V.to_z3(E.V.to_real(E.unwrap(b))))) \
        if not getattr(E.cur(), "is_replay", False) else min(a, b)


def main(tier, seed):
    from rl_blox.blox import checkpointing as cp

    rep = E2Report(PROP, tier, seed)
    K = 3 if tier == "quick" else 5
    rep.r.bounds = {"inductive_step": "arbitrary CheckpointState satisfying the invariant, unbounded ints/reals", "histories": f"<= {K} episodes from the initial state"}
    rep.r.assumptions = ["state invariant for the inductive step: 0<=episodes<max_episodes, timesteps>=0, max_episodes>=1",
                         "episode length >= 1, epoch >= 0, window-size threshold >= 0, max_episodes_when_checkpointing >= 1",
                         "train_td7 runs on the recording world (bounded steps) with the REAL assessment function and _train_step"]

    def step(ctx):
        st = cp.CheckpointState()
        st.episodes_since_udpate = ep0 = sym_int("episodes", 0, None)
        st.timesteps_since_upate = ts0 = sym_int("timesteps", 0, None)
        st.max_episodes_before_update = mx0 = sym_int("max_episodes", 1, None)
        ctx.assume(ep0 < mx0)
        st.min_return = mn0 = sym_real("min_return")
        st.best_min_return = best0 = sym_real("best_min_return")
        steps = sym_int("steps", 1, None)
        ret = sym_real("return")
        epoch = sym_int("epoch", 0, None)
        w = sym_real("reset_weight")
        mx_new = sym_int("max_when_checkpointing", 1, None)
        thr = sym_int("steps_before_checkpointing", 0, None)
        upd, released = cp.assess_performance_and_checkpoint(st, steps, ret, epoch, w, mx_new, thr)
        window = ts0 + steps
        new_min = smin(mn0, ret)
        complete = (ep0 + 1) == mx0
        worse = new_min < best0
        ctx.check((released == 0) | (released == window), "released-is-0-or-exactly-the-window's-steps")
        ctx.check((released == window) == (worse | complete), "release-iff-window-complete-or-cut-short")
        ctx.check(upd == (complete & ~worse), "checkpoint-replaced-iff-complete-window-with-all-returns>=best")
        ctx.check(((released == window) & ~upd) == worse, "cut-short-exactly-when-a-return-falls-below-best")
        if released == 0:
            ctx.check(st.episodes_since_udpate == ep0 + 1, "no-release:episode-counter-accumulates")
            ctx.check(st.timesteps_since_upate == window, "no-release:step-counter-accumulates(nothing lost)")
            ctx.check(st.min_return == new_min, "no-release:min-return-tracks-minimum")
            ctx.check(st.best_min_return == best0, "no-release:best-unchanged")
            ctx.check(st.max_episodes_before_update == mx0, "no-release:window-size-unchanged")
        else:
            ctx.check(st.episodes_since_udpate == 0, "release:episode-counter-reset")
            ctx.check(st.timesteps_since_upate == 0, "release:step-counter-reset")
            ctx.check(st.min_return == BIG, "release:min-return-reset")
            switch = (epoch < thr) & (thr <= epoch + window)
            base = new_min if upd else best0
            if switch:
                ctx.check(st.max_episodes_before_update == mx_new, "switch:longer-window-adopted")
                ctx.check(st.best_min_return == base * w, "switch:best-scaled-by-reset-weight")
            else:
                ctx.check(st.max_episodes_before_update == mx0, "no-switch:window-size-unchanged")
                ctx.check(st.best_min_return == base, "best=min-return-of-the-completed-window-or-unchanged")
    rep.run("assess_performance_and_checkpoint:inductive-step", step, fn="rl_blox.blox.checkpointing.assess_performance_and_checkpoint")

    def history(ctx):
        st = cp.CheckpointState()
        w = sym_real("reset_weight")
        mx_new = sym_int("max_when_checkpointing", 1, 3)
        thr = sym_int("steps_before_checkpointing", 0, None)
        epoch = 0
        total_steps = 0
        total_released = 0
        switches = 0
        for i in range(K):
            steps = sym_int(f"steps{i}", 1, None)
            ret = sym_real(f"return{i}")
            mx_before = st.max_episodes_before_update
            upd, released = cp.assess_performance_and_checkpoint(st, steps, ret, epoch, w, mx_new, thr)
            total_steps = total_steps + steps
            total_released = total_released + released
            epoch = epoch + released  # the caller trains `released` iterations
            ctx.check(total_released + st.timesteps_since_upate == total_steps, "history:released+pending=collected(no step lost or duplicated)")
            crossed_before = (epoch - released) >= thr
            crossed_after = epoch >= thr
            if (released > 0) & ((epoch - released) < thr) & (thr <= epoch):
                switches += 1
            ctx.check(switches <= 1, "history:window-switch-happens-at-most-once")
    rep.run("assess_performance_and_checkpoint:histories", history, fn="rl_blox.blox.checkpointing.assess_performance_and_checkpoint")
    _td7_loop(rep, tier)
    if tier == "thorough":
        _crosshair_twin(rep)
    return rep.finish()


def _crosshair_twin(rep):
    """Independent second engine: CrossHair (symbolic execution of Python with z3) on the same inductive step.
    'Confirmed over all paths' is recorded; anything else is recorded as inconclusive for the twin only, except a
    counterexample, which contradicts the primary engine and makes the run inconclusive."""
    import os
    import subprocess
    import sys
    here = os.path.dirname(os.path.abspath(__file__))
    cmd = [sys.executable, "-m", "crosshair", "check", "--report_all", "--per_condition_timeout", "60", os.path.join(here, "crosshair_c15.py")]
    try:
        out = subprocess.run(cmd, capture_output=True, text=True, timeout=300, env=dict(os.environ, JAX_PLATFORMS="cpu")).stdout
    except Exception as ex:  # noqa
        out = f"crosshair failed: {ex}"
    verdict = "confirmed" if "Confirmed over all paths" in out else ("counterexample" if "false when calling" in out or "error:" in out.lower() and "assess_twin" in out else "not confirmed")
    rep.r.extra["crosshair_twin"] = {"cmd": " ".join(cmd[1:]), "verdict": verdict, "output": out.strip()[-400:]}
    if verdict == "counterexample":
        rep.r.inconclusive_("assess_performance_and_checkpoint:crosshair-twin", "CrossHair reports a counterexample the primary engine does not: " + out.strip()[-200:])


def _td7_loop(rep, tier):
    """train_td7 with checkpoints: iterations released per assessment = what the real assessment returned = steps collected
    since the previous release; checkpoint copy iff update_checkpoint; epoch advances by the released count."""
    from props import loops as L
    from props import loopworld as W

    def prog(K):
        def run(ctx):
            tr = L.run_td7(ctx, K, 0, symbolic=("max_episodes_when_checkpointing", "steps_before_checkpointing"), use_checkpoints=True)
            iters = {}
            for (_, at, p) in tr.w.of("train_iteration"):
                iters.setdefault(at, []).append(p["epoch"])
            assess = {at: p for (_, at, p) in tr.w.of("assess")}
            copies = {}
            for (_, at, p) in tr.w.of("hard_target_net_update"):
                if isinstance(p["args"][1], L.SalePolicyStub) and isinstance(p["args"][0], L.SalePolicyStub):
                    copies.setdefault(at, []).append(p)
            pending = 0
            epoch = 0
            total_released = 0
            for k in range(1, tr.env.n_steps + 1):
                pending += 1
                st = tr.env.steps[k - 1]
                ended = W.b_or(st["terminated"], st["truncated"])
                n_it = len(iters.get(k, []))
                if k in assess:
                    a = assess[k]
                    ctx.check(ended, "assessment-only-at-episode-ends")
                    ctx.check(n_it == a["released"], "released-training-iterations=value-returned-by-the-assessment")
                    ctx.check((a["released"] == 0) | (a["released"] == pending), "released-iterations=environment-steps-collected-since-the-previous-release")
                    ctx.check((len(copies.get(k, [])) == 1) == a["update_checkpoint"], "checkpoint-copied-iff-the-assessment-says-so")
                    ctx.check(a["epoch"] == epoch, "assessment-sees-the-number-of-training-iterations-done-so-far")
                    for j, ep in enumerate(iters.get(k, [])):
                        ctx.check(ep == epoch + j + 1, "epoch-advances-by-one-per-released-iteration")
                    if n_it:
                        epoch += n_it
                        total_released += n_it
                        pending = 0
                else:
                    ctx.check(n_it == 0, "no-training-between-assessments-in-deferred-mode")
                    ctx.check(len(copies.get(k, [])) == 0, "checkpoint-changes-only-at-assessments")
            ctx.check(total_released + pending == tr.env.n_steps, "released+pending=executed(no-step-lost-or-duplicated)")
        return run
    for K in ([3] if tier == "quick" else [3, 4]):
        rep.run(f"train_td7[use_checkpoints,K={K}]", prog(K), max_paths=200000 if tier != "quick" else 8000, fn="rl_blox.algorithm.td7.train_td7 + real assess_performance_and_checkpoint", site_of=lambda label: f"train_td7:{label}")
    rep.r.bounds["train_td7_loop"] = "K<=6 steps, learning_starts=0, symbolic flags/rewards, symbolic window size and threshold"


def replay(path):
    import json
    print(json.dumps(json.load(open(path)), indent=1))
    return main("quick", 0)
