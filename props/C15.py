"""C15 Deferred training releases exactly the collected steps; checkpoints only improve (E2)."""
from __future__ import annotations

from fractions import Fraction

import z3

from e2_pysym import core as E
from e2_pysym.core import sym_int, sym_real
from props.e2common import E2Report

PROP = "C15"
BIG = Fraction(10**8)


def smin(a, b):
    """reference min on proxies/numbers without forking"""
    return E.wrap(z3.If(E.V.to_z3(E.V.to_real(E.unwrap(a))) <= E.V.to_z3(E.V.to_real(E.unwrap(b))), E.V.to_z3(E.V.to_real(E.unwrap(a))), E.V.to_z3(E.V.to_real(E.unwrap(b))))) \
        if not getattr(E.cur(), "is_replay", False) else min(a, b)


def main(tier, seed):
    from rl_blox.blox import checkpointing as cp

    rep = E2Report(PROP, tier, seed)
    K = 3 if tier == "quick" else 5
    rep.r.bounds = {"inductive_step": "arbitrary CheckpointState satisfying the invariant, unbounded ints/reals", "histories": f"<= {K} episodes from the initial state"}
    rep.r.assumptions = ["state invariant for the inductive step: 0<=episodes<max_episodes, timesteps>=0, max_episodes>=1",
                         "episode length >= 1, epoch >= 0, window-size threshold >= 0, max_episodes_when_checkpointing >= 1",
                         "train_td7's use of the returned counts (release loop, checkpoint copy) is not covered by this check yet"]

    def step(ctx):
        st = cp.CheckpointState()
        st.episodes_since_udpate = ep0 = sym_int("episodes", 0, None)
        st.timesteps_since_upate = ts0 = sym_int("timesteps", 0, None)
        st.max_episodes_before_update = mx0 = sym_int("max_episodes", 1, None)
        ctx.assume(ep0 < mx0)
        st.min_return = mn0 = sym_real("min_return")
        st.best_min_return = best0 = sym_real("best_min_return")
        steps = sym_int("steps", 1, None)
        ret = sym_real("return")
        epoch = sym_int("epoch", 0, None)
        w = sym_real("reset_weight")
        mx_new = sym_int("max_when_checkpointing", 1, None)
        thr = sym_int("steps_before_checkpointing", 0, None)
        upd, released = cp.assess_performance_and_checkpoint(st, steps, ret, epoch, w, mx_new, thr)
        window = ts0 + steps
        new_min = smin(mn0, ret)
        complete = (ep0 + 1) == mx0
        worse = new_min < best0
        ctx.check((released == 0) | (released == window), "released-is-0-or-exactly-the-window's-steps")
        ctx.check((released == window) == (worse | complete), "release-iff-window-complete-or-cut-short")
        ctx.check(upd == (complete & ~worse), "checkpoint-replaced-iff-complete-window-with-all-returns>=best")
        ctx.check(((released == window) & ~upd) == worse, "cut-short-exactly-when-a-return-falls-below-best")
        if released == 0:
            ctx.check(st.episodes_since_udpate == ep0 + 1, "no-release:episode-counter-accumulates")
            ctx.check(st.timesteps_since_upate == window, "no-release:step-counter-accumulates(nothing lost)")
            ctx.check(st.min_return == new_min, "no-release:min-return-tracks-minimum")
            ctx.check(st.best_min_return == best0, "no-release:best-unchanged")
            ctx.check(st.max_episodes_before_update == mx0, "no-release:window-size-unchanged")
        else:
            ctx.check(st.episodes_since_udpate == 0, "release:episode-counter-reset")
            ctx.check(st.timesteps_since_upate == 0, "release:step-counter-reset")
            ctx.check(st.min_return == BIG, "release:min-return-reset")
            switch = (epoch < thr) & (thr <= epoch + window)
            base = new_min if upd else best0
            if switch:
                ctx.check(st.max_episodes_before_update == mx_new, "switch:longer-window-adopted")
                ctx.check(st.best_min_return == base * w, "switch:best-scaled-by-reset-weight")
            else:
                ctx.check(st.max_episodes_before_update == mx0, "no-switch:window-size-unchanged")
                ctx.check(st.best_min_return == base, "best=min-return-of-the-completed-window-or-unchanged")
    rep.run("assess_performance_and_checkpoint:inductive-step", step, fn="rl_blox.blox.checkpointing.assess_performance_and_checkpoint")

    def history(ctx):
        st = cp.CheckpointState()
        w = sym_real("reset_weight")
        mx_new = sym_int("max_when_checkpointing", 1, 3)
        thr = sym_int("steps_before_checkpointing", 0, None)
        epoch = 0
        total_steps = 0
        total_released = 0
        switches = 0
        for i in range(K):
            steps = sym_int(f"steps{i}", 1, None)
            ret = sym_real(f"return{i}")
            mx_before = st.max_episodes_before_update
            upd, released = cp.assess_performance_and_checkpoint(st, steps, ret, epoch, w, mx_new, thr)
            total_steps = total_steps + steps
            total_released = total_released + released
            epoch = epoch + released  # the caller trains `released` iterations
            ctx.check(total_released + st.timesteps_since_upate == total_steps, "history:released+pending=collected(no step lost or duplicated)")
            crossed_before = (epoch - released) >= thr
            crossed_after = epoch >= thr
            if (released > 0) & ((epoch - released) < thr) & (thr <= epoch):
                switches += 1
            ctx.check(switches <= 1, "history:window-switch-happens-at-most-once")
    rep.run("assess_performance_and_checkpoint:histories", history, fn="rl_blox.blox.checkpointing.assess_performance_and_checkpoint")
    return rep.finish()


def replay(path):
    import json
    print(json.dumps(json.load(open(path)), indent=1))
    return main("quick", 0)
