"""C19 Saved models and buffers reload to identical state and behaviour - protocol layer only (E1 + E2).

The byte level (pickle stream, orbax/tensorstore, file system, device placement) is outside this technique; what is
decided here: rl_blox hands the serializer the COMPLETE state and rebuilds an equal object from what it gets back."""
from __future__ import annotations

import contextlib
import copy
import io
import os
import pickle

import jax
import jax.numpy as jnp
import numpy as np
import z3
from flax import nnx

from e2_pysym import core as E
from e2_pysym.core import sym_bool, sym_int, sym_real
from e2_pysym.npshim import JnpShim, NpShim, RngStub, is_poison
from props import zoo
from props.C04 import FixedRng
from props.common import E1, tier_params
from props.e2common import E2Report, overlay
from symcore import sarray as S
from symcore import values as V
from symcore.solver import Session

PROP = "C19"


# ------------------------------------------------------------------------------------------------ modules (E1)
class Store:
    """store-and-return stand-in for the byte-level serializer"""

    def __init__(self):
        self.obj = {}

    # pickle-like
    def dump(self, obj, f):
        self.obj[f.name] = obj

    def load(self, f):
        return self.obj[f.name]


class FakeFile:
    def __init__(self, name):
        self.name = name

    def __enter__(self):
        return self

    def __exit__(self, *a):
        return False


def _key_names(path):
    out = []
    for k in path:
        out.append(str(getattr(k, "key", getattr(k, "name", getattr(k, "idx", k)))))
    return tuple(out)


def _untargeted(state):
    """what orbax returns for restore(path) without a target: nested dict, every key a string"""
    root = {}
    for p_, leaf in jax.tree_util.tree_flatten_with_path(state)[0]:
        names = _key_names(p_)
        d = root
        for n_ in names[:-1]:
            d = d.setdefault(n_, {})
        d[names[-1]] = leaf
    return root


def _validate_orbax_contract(rep, scratch):
    """One real orbax save/restore of a small module: the stub's untargeted result must have exactly the key
    structure of the real one (stub validation; a mismatch is a harness error, not a finding)."""
    import shutil
    import orbax.checkpoint as ocp
    m = zoo.mlp(2, 1, (2, 2), 0)
    st = nnx.state(m)
    path = os.path.join(scratch, f"orbax_contract_{os.getpid()}")  # per process: checks may run concurrently
    shutil.rmtree(path, ignore_errors=True)
    import warnings
    with warnings.catch_warnings():
        warnings.simplefilter("ignore")
        ck = ocp.StandardCheckpointer()
        ck.save(path, st)
        ck.wait_until_finished()
        real = ocp.PyTreeCheckpointer().restore(path)

    def keys(d, pre=()):
        out = set()
        for k, v in d.items():
            out |= keys(v, pre + (k,)) if isinstance(v, dict) else {pre + (k,)}
        return out
    ok = keys(real) == keys(_untargeted(st)) and all(isinstance(x, str) for kp in keys(real) for x in kp)
    shutil.rmtree(path, ignore_errors=True)
    rep.r.extra["orbax_restore_contract_validated_against_real_orbax"] = bool(ok)
    if not ok:
        raise RuntimeError("orbax stub does not reproduce the key structure of a real untargeted restore")


def module_cases(seed):
    from rl_blox.blox.function_approximator.gaussian_mlp import GaussianMLP
    from rl_blox.blox.function_approximator.policy_head import GaussianTanhPolicy
    x2 = jnp.asarray([[0.3, -0.7]])
    return {
        "MLP": (zoo.mlp(2, 2, (2,), seed), lambda m: m(x2)),
        # more than ten list entries: an index-keyed restore must not order them as strings ("10" < "2")
        "MLP[11 hidden layers]": (zoo.mlp(2, 1, (1,) * 11, seed, "tanh"), lambda m: m(x2)),
        "LayerNormMLP": (zoo.ln_mlp(2, 1, (2,), seed), lambda m: m(x2)),
        "DeterministicTanhPolicy": (zoo.tanh_policy(2, 1, (2,), seed), lambda m: m(x2)),
        "GaussianTanhPolicy": (GaussianTanhPolicy(GaussianMLP(True, 2, 1, [2], "relu", nnx.Rngs(seed)), zoo.box(1)), lambda m: m(x2)),
        "ContinuousClippedDoubleQNet": (zoo.double_q(1, 1, (2,), seed), lambda m: m(x2)),
        "SALE": (zoo.sale(2, 1, 2, seed), lambda m: m(x2, jnp.asarray([[0.1]]))),
        "DeterministicPolicyWithEncoder": (zoo.encoder_policy(2, 1, seed), lambda m: m(x2)),
    }


def _modules(rep, sess, tier, seed):
    from rl_blox.blox import probabilistic_ensemble as pe
    from rl_blox.logging import checkpointer as ckmod
    from rl_blox.logging import logger as lgmod
    from rl_blox.util import serialize
    scratch = os.path.join(os.path.dirname(os.path.dirname(os.path.abspath(__file__))), ".scratch")
    os.makedirs(scratch, exist_ok=True)
    _validate_orbax_contract(rep, scratch)

    class RecCk:
        """Recording stand-in for the orbax checkpointers, with orbax's restore contract (validated against the real
        library by _validate_orbax_contract): restore(path) WITHOUT a target returns a plain nested dict whose keys are
        all strings (list indices too, variable values under 'value'); restore(path, item=target) returns the target's
        structure with the saved leaves matched by key."""

        def __init__(self):
            self.saved = {}

        def save(self, path, state):
            self.saved[str(path)] = state

        def wait_until_finished(self):
            pass

        def restore(self, path, item=None, **kw):
            saved = self.saved[str(path)]
            flat = {_key_names(p_): l for p_, l in jax.tree_util.tree_flatten_with_path(saved)[0]}
            if item is None:
                return _untargeted(saved)
            tp, td = jax.tree_util.tree_flatten_with_path(item)
            return jax.tree_util.tree_unflatten(td, [flat[_key_names(p_)] for p_, _ in tp])

    for name, (net, fwd) in module_cases(seed).items():
        gdef, st = nnx.split(net)

        def via_pickle(state, gdef=gdef, fwd=fwd, device=None):
            store = Store()
            m = nnx.merge(gdef, state)
            with overlay(serialize, open=lambda fn, mode: FakeFile(fn), pickle=store):
                serialize.save_pickle("net.pkl", m, move_to_device=device)
                m2 = serialize.load_pickle("net.pkl", nnx.graphdef(m), device)
            return nnx.state(m2), fwd(m2), fwd(m)

        def via_pickle_cpu(state, gdef=gdef, fwd=fwd):
            return via_pickle(state, gdef, fwd, "cpu")

        def via_orbax_logger(state, gdef=gdef, fwd=fwd):
            m = nnx.merge(gdef, state)
            rec = RecCk()

            class FakeOcp:
                StandardCheckpointer = lambda: rec
                PyTreeCheckpointer = lambda: rec
            with overlay(ckmod, ocp=FakeOcp):
                ck = ckmod.OrbaxCheckpointer(checkpoint_dir=scratch, verbose=0)
                ck.define_checkpoint_frequency("net", 1)
                ck.record_epoch("net", m, step=1)
                path = ck.checkpoint_path["net"][0]
            import orbax.checkpoint as real_ocp
            old = real_ocp.PyTreeCheckpointer
            real_ocp.PyTreeCheckpointer = lambda: rec
            # the module handed to restore_checkpoint only describes the structure: every variable value (trainable or
            # not) must come from the checkpoint, so the template gets different values throughout
            tmpl = nnx.merge(gdef, jax.tree_util.tree_map(lambda x: x * 0 + 7, state))
            try:
                m2 = pe.restore_checkpoint(path, tmpl)
            finally:
                real_ocp.PyTreeCheckpointer = old
            return nnx.state(m2), fwd(m2), fwd(m)

        def via_standard_logger(state, gdef=gdef, fwd=fwd):
            m = nnx.merge(gdef, state)
            rec = RecCk()
            lg = lgmod.StandardLogger(verbose=0)
            lg.checkpointer = rec
            lg.define_checkpoint_frequency("net", 1)
            lg.record_epoch("net", m)
            path = lg.checkpoint_path["net"][0]
            g2, _ = nnx.split(m)
            m2 = nnx.merge(g2, rec.saved[path])
            return nnx.state(m2), fwd(m2), fwd(m)
        for label, fn in (("save_pickle/load_pickle", via_pickle), ("save_pickle/load_pickle(move_to_device=cpu)", via_pickle_cpu), ("OrbaxCheckpointer.save_model+restore_checkpoint", via_orbax_logger), ("StandardLogger._save_checkpoint", via_standard_logger)):
            try:
                e = E1(rep.r, sess, fn, (st,), f"{label}[{name}]")
            except V.Unsupported:
                raise
            except Exception as ex:  # the real save/load pair rejects a module it was given: not a faithful reload
                try:
                    fn(st)
                    rep.r.inconclusive_(f"{label}[{name}]", f"tracing raised {type(ex).__name__} but the eager call succeeded")
                except Exception as ex2:
                    rep.r.replayed += 1
                    rep.r.violation(f"{label}:every-variable-leaf-restored", f"{name}: save followed by load raises {type(ex2).__name__}: {str(ex2)[:160]}", {"module": name})
                continue
            la, lb = jax.tree_util.tree_leaves(e.ins[0]), jax.tree_util.tree_leaves(e.outs[0])
            if len(la) != len(lb):
                rep.r.violation(f"{label}:complete-state", f"{name}: {len(la)} state leaves saved, {len(lb)} restored", {"module": name})
                continue
            e.obligation("every-variable-leaf-restored-identically", lambda i, o: [S.close(S.SA(a), S.SA(b)) for a, b in zip(jax.tree_util.tree_leaves(o[0]), jax.tree_util.tree_leaves(i[0]))],
                         site=f"{label}:every-variable-leaf-restored")
            e.obligation("reloaded-module-gives-the-same-outputs", lambda i, o: [S.close(S.SA(a), S.SA(b)) for a, b in zip(jax.tree_util.tree_leaves(o[1]), jax.tree_util.tree_leaves(o[2]))],
                         site=f"{label}:same-outputs-after-reload")


# ------------------------------------------------------------------------------------------------ buffers (E2)
def _dict_equal(ctx, a, b, label, path=""):
    """structural equality of two attribute trees (proxies compared by z3 equality)"""
    if isinstance(a, dict):
        ctx.check(isinstance(b, dict) and (sorted(map(str, a.keys())) == sorted(map(str, b.keys()))), label + ":same-attributes" + path)
        for k in a:
            _dict_equal(ctx, a[k], b[k], label, f"{path}.{k}")
        return
    if isinstance(a, np.ndarray):
        ctx.check(isinstance(b, np.ndarray) and a.shape == b.shape, label + ":same-array-shapes")
        for x, y in zip(a.reshape(-1), b.reshape(-1)):
            if is_poison(x) or is_poison(y):
                ctx.check(is_poison(x) and is_poison(y), label + ":same-contents")
            else:
                ctx.check(x == y, label + ":same-contents")
        return
    if isinstance(a, (list, tuple)):
        ctx.check(type(a) is type(b) and len(a) == len(b), label + ":same-contents")
        for x, y in zip(a, b):
            _dict_equal(ctx, x, y, label, path)
        return
    if hasattr(a, "__dict__") and not isinstance(a, type):
        ctx.check(type(a) is type(b), label + ":same-types")
        _dict_equal(ctx, a.__dict__, b.__dict__, label, path)
        return
    if isinstance(a, type):
        ctx.check(isinstance(b, type) and getattr(a, "_fields", None) == getattr(b, "_fields", None), label + ":batch-type-rebuilt-with-the-same-fields")
        return
    ctx.check(a == b, label + ":same-contents")


def roundtrip(ctx, obj):
    if getattr(ctx, "is_replay", False):
        return pickle.loads(pickle.dumps(obj))
    # deepcopy drives the same reduce protocol (__getstate__/__setstate__) without needing bytes for symbolic elements
    return copy.deepcopy(obj)


def buffer_program(cls_name, n_ops, cap=2):
    from rl_blox.blox import replay_buffer as rb
    sub = cls_name.startswith("Subtrajectory")

    def add(buf, i):
        if sub:
            term, trunc = bool(sym_bool(f"term{i}")), bool(sym_bool(f"trunc{i}"))
            buf.add_sample(observation=[sym_real(f"o{i}")], action=sym_real(f"a{i}"), reward=sym_real(f"r{i}"), next_observation=[sym_real(f"n{i}")], terminated=int(term), truncated=int(trunc))
        else:
            buf.add_sample(observation=[sym_real(f"o{i}")], action=sym_real(f"a{i}"), reward=sym_real(f"r{i}"), next_observation=[sym_real(f"n{i}")], termination=sym_bool(f"t{i}"))

    def sample(buf, rng):
        if sub:
            return buf.sample_batch(1, 1, True, rng)
        out = buf.sample_batch(1, rng)
        return out[0] if cls_name == "PrioritizedReplayBuffer" else out

    def prog(ctx):
        with overlay(rb, np=NpShim(), jnp=JnpShim()):
            # capacity 2 for the plain buffers: the operations before the save then reach wrap-around (cursor != length % N)
            buf = getattr(rb, cls_name)(3 if sub else cap, **({"horizon": 1} if sub else {}))
            n = int(sym_int("n_ops", 1, n_ops))
            last_sampled = False
            for i in range(n):
                op = 0 if i == 0 else int(sym_int(f"op{i}", 0, 2 if hasattr(buf, "update_priority") else 1))
                if op == 0:
                    add(buf, i)
                elif op == 1:
                    try:
                        sample(buf, RngStub(f"pre{i}"))
                        last_sampled = True
                    except ValueError:
                        pass
                elif last_sampled:
                    buf.update_priority(sym_real(f"p{i}", 0, None, lo_open=True))
            clone = roundtrip(ctx, buf)
            ctx.check(clone is not buf, "reload-gives-a-new-object")
            _dict_equal(ctx, buf.__dict__, clone.__dict__, "saved-buffer-reloads-to-identical-state")
            if last_sampled and hasattr(buf, "update_priority") and bool(sym_bool("update_right_after_reload")):
                # a save taken between sample_batch and update_priority: the pending batch must survive the reload
                p0 = sym_real("p_reload", 0, None, lo_open=True)
                buf.update_priority(p0)
                try:
                    clone.update_priority(p0)
                except Exception as ex:
                    ctx.log.append(f"update_priority on the reloaded buffer raised {type(ex).__name__}: {ex}")
                    ctx.check(False, "same-evolution-under-a-priority-update")
                _dict_equal(ctx, buf.__dict__, clone.__dict__, "same-evolution-under-a-priority-update")
            # identical subsequent behaviour: one more addition, one sample with the same generator draws, one priority update
            add(buf, 100)
            _readd(clone, buf, sub)
            _dict_equal(ctx, buf.__dict__, clone.__dict__, "same-evolution-under-a-further-addition")
            rng1 = RngStub("post")
            try:
                b1 = sample(buf, rng1)
                ok = True
            except ValueError:
                ok = False
            if ok:
                b2 = sample(clone, FixedRng(list(rng1.draws)))
                for k in b1._fields:
                    _dict_equal(ctx, np.asarray(getattr(b1, k), dtype=object), np.asarray(getattr(b2, k), dtype=object), "same-sampled-batch-for-the-same-generator-state")
                if hasattr(buf, "update_priority"):
                    p = sym_real("p_post", 0, None, lo_open=True)
                    buf.update_priority(p)
                    clone.update_priority(p)
                    _dict_equal(ctx, buf.__dict__, clone.__dict__, "same-evolution-under-a-priority-update")
    return prog


def multitask_reload_program(order, n_tasks):
    """MultiTaskReplayBuffer: after a reload, the same generator state draws the same task and the same batch.  The
    activation order of the tasks is concrete (it decides the iteration order of the internal set of active tasks, which
    a reload may rebuild differently); the generator's choice position and all contents are symbolic."""
    from rl_blox.blox import replay_buffer as rb

    class PosRng:
        """generator for the task draw: the position picked in list(active tasks) is ONE shared symbol, the other draws
        are recorded by the first instance and replayed by the second (same generator state for both objects)"""

        def __init__(self, pos, inner):
            self.pos, self.inner = pos, inner

        def choice(self, a, size=None, **kw):
            a = list(a)
            v = a[int(self.pos)]
            return np.asarray([v]) if size is not None else v

        def __getattr__(self, k):
            return getattr(self.inner, k)

    def prog(ctx):
        with overlay(rb, np=NpShim(), jnp=JnpShim()):
            mt = rb.MultiTaskReplayBuffer(rb.LAP(2), n_tasks)
            for j, t in enumerate(order):
                mt.select_task(t)
                mt.add_sample(observation=[sym_real(f"o{j}")], action=sym_real(f"a{j}"), reward=sym_real(f"r{j}"), next_observation=[sym_real(f"n{j}")], termination=sym_bool(f"t{j}"))
            clone = roundtrip(ctx, mt)
            ctx.check(clone is not mt, "reload-gives-a-new-object")
            pos = sym_int("choice_position", 0, len(order) - 1)
            rng1 = RngStub("post")
            b1 = mt.sample_batch(1, rng=PosRng(pos, rng1))
            b2 = clone.sample_batch(1, rng=PosRng(pos, FixedRng(list(rng1.draws))))
            ctx.check(int(mt.sampled_task_idx) == int(clone.sampled_task_idx), "multi-task:same-task-drawn-for-the-same-generator-state-after-reload")
            for k in b1._fields:
                _dict_equal(ctx, np.asarray(getattr(b1, k), dtype=object), np.asarray(getattr(b2, k), dtype=object), "same-sampled-batch-for-the-same-generator-state")
    return prog


_LAST_ADD = {}


def _readd(clone, buf, sub):
    """apply to the clone the same addition (same symbols) that was just applied to buf"""
    kw = _LAST_ADD["kw"]
    clone.add_sample(**kw)


def main(tier, seed):
    from rl_blox.blox import replay_buffer as rb
    tp = tier_params(tier)
    rep = E2Report(PROP, tier, seed)
    sess = Session(tp["timeout"])
    rep.r.bounds = {"modules": list(module_cases(seed)), "buffers": ["ReplayBuffer", "LAP", "PrioritizedReplayBuffer", "SubtrajectoryReplayBuffer", "SubtrajectoryReplayBufferPER", "MultiTaskReplayBuffer(LAP)"],
                    "buffer_history": "capacity 3, <=4 symbolic operations (add / sample / update_priority) before the save, then add + sample(same draws) + priority update"}
    rep.r.assumptions = ["byte-level serialisation (pickle stream, orbax/tensorstore, file system, device placement) is OUTSIDE the claim: the serializer is a store-and-return stub",
                         "buffers: copy.deepcopy drives the same __reduce_ex__/__getstate__/__setstate__ protocol as pickle (symbolic contents cannot be turned into bytes); replays of counterexamples use real pickle",
                         "real-number semantics for module outputs"]
    # record the kwargs of every add so that the clone can receive the same addition
    orig = {}
    for cls in ("ReplayBuffer", "SubtrajectoryReplayBuffer"):
        c = getattr(rb, cls)
        orig[cls] = c.add_sample

    def wrap(fn):
        def add_sample(self, **kw):
            _LAST_ADD["kw"] = kw
            return fn(self, **kw)
        return add_sample
    _modules(rep, sess, tier, seed)
    rep.r.add_queries(sess)
    n_ops = 3 if tier == "quick" else 4
    try:
        for cls, fn in orig.items():
            setattr(getattr(rb, cls), "add_sample", wrap(fn))
        for cls in ("ReplayBuffer", "LAP", "PrioritizedReplayBuffer", "SubtrajectoryReplayBuffer", "SubtrajectoryReplayBufferPER"):
            rep.run(f"{cls}:save/reload", buffer_program(cls, n_ops), fn=f"{cls}.__getstate__/__setstate__ + continuation", site_of=lambda label, cls=cls: f"{cls}:{label.split(':')[0]}")
    finally:
        for cls, fn in orig.items():
            setattr(getattr(rb, cls), "add_sample", fn)
    for order, nt in (((0, 1), 2), ((1, 0), 2), ((15, 7), 16)) + ((((9, 1, 17), 18),) if tier != "quick" else ()):
        rep.run(f"MultiTaskReplayBuffer(LAP)[tasks activated in order {order}]:save/reload", multitask_reload_program(order, nt),
                fn="MultiTaskReplayBuffer.__reduce_ex__ + sample_batch", site_of=lambda label: f"MultiTaskReplayBuffer:{label.split(':')[-1] if label.startswith('multi-task') else label.split(':')[0]}")
    return rep.finish()


def replay(path):
    import json
    print(json.dumps(json.load(open(path)), indent=1))
    return main("quick", 0)
