"""CrossHair twin (independent second engine, thorough tier only) for C15's inductive step."""
from rl_blox.blox.checkpointing import CheckpointState, assess_performance_and_checkpoint


def assess_twin(ep0: int, ts0: int, mx0: int, mn0: float, best0: float, steps: int, ret: float, epoch: int, w: float, mxn: int, thr: int) -> bool:
    """
    pre: 0 <= ep0 < mx0 and ts0 >= 0 and steps >= 1 and epoch >= 0 and mxn >= 1 and thr >= 0
    pre: -1e6 < mn0 < 1e9 and -1e9 < best0 < 1e6 and -1e6 < ret < 1e6 and -10 < w < 10
    post: _
    """
    st = CheckpointState(ep0, ts0, mx0, mn0, best0)
    upd, rel = assess_performance_and_checkpoint(st, steps, ret, epoch, w, mxn, thr)
    window = ts0 + steps
    new_min = min(mn0, ret)
    complete = ep0 + 1 == mx0
    worse = new_min < best0
    ok = rel in (0, window)
    ok = ok and ((rel == window) == (worse or complete))
    ok = ok and (upd == (complete and not worse))
    if rel == 0:
        ok = ok and st.episodes_since_udpate == ep0 + 1 and st.timesteps_since_upate == window
    else:
        ok = ok and st.episodes_since_udpate == 0 and st.timesteps_since_upate == 0
    return ok
