"""C17 PETS model: ensemble consistency, bootstraps and plan evaluation (E1)."""
from __future__ import annotations

from fractions import Fraction

import jax
import jax.numpy as jnp
import numpy as np
import optax
import z3
from flax import nnx

from props.common import E1, generalise, tier_params
from props.e2common import overlay
from symcore import sarray as S
from symcore import values as V
from symcore.evidence import Report
from symcore.solver import Session

PROP = "C17"


def mk_ensemble(n_ens, n_in, n_out, seed):
    from rl_blox.blox.probabilistic_ensemble import GaussianMLPEnsemble
    return GaussianMLPEnsemble(n_ens, False, n_in, n_out, [2], "relu", nnx.Rngs(seed))


def shape_violation(rep, site, what, eager):
    """A wrong output shape is itself the violation: confirm it on the eager real call."""
    try:
        got = eager()
    except Exception as ex:
        got = f"raises {type(ex).__name__}: {str(ex)[:120]}"
    rep.replayed += 1
    rep.violation(site, f"{what}; real call gives {got}", {"site": site})


def _bootstrap_bookkeeping(rep, sess, n_ens, n_boot, bs, rng, captured, pe):
    """same obligations for a bootstrap size that is not a multiple of the batch size (incomplete last batch dropped)"""
    def epoch_fn(boot, key):
        captured.clear()

        class M:
            n_ensemble = n_ens

        def fake_epoch(model, opt, X, Y, idx):
            captured.append(idx)
            return 0.0
        with overlay(pe, train_epoch=fake_epoch, bootstrap=lambda *a, **k: boot):
            pe.train_ensemble(M(), None, 1.0, jnp.zeros((n_boot, 1)), jnp.zeros((n_boot, 1)), 1, bs, key)
        return captured[0]
    boot0 = jnp.asarray(rng.integers(0, 9, size=(n_ens, n_boot)), dtype=jnp.int32)
    e = E1(rep, sess, epoch_fn, (boot0, jax.random.key(1)), f"train_ensemble:index-bookkeeping[n_boot={n_boot},batch={bs}]")
    out = S.SA(e.outs)
    if tuple(out.shape) != (n_boot // bs, n_ens, bs):
        shape_violation(rep, "train_ensemble:all-complete-batches-are-handed-to-the-trainer", f"index tensor of shape {tuple(out.shape)} instead of {(n_boot // bs, n_ens, bs)}",
                        lambda: tuple(np.shape(epoch_fn(boot0, jax.random.key(1)))))
        return
    e.add_hyp(z3.Distinct(*S.SA(e.ins[0]).flat()))
    nb = out.shape[0]

    def own_rows(i, o):
        o_, b_ = S.SA(o), S.SA(i[0])
        goals = []
        for m_ in range(n_ens):
            elems = [o_[b, m_, k] for b in range(nb) for k in range(bs)]
            for x in elems:
                acc = False
                for j in range(n_boot):
                    acc = V.s_or(acc, x.eq(b_[m_, j]).item())
                goals.append(acc)
            for a in range(len(elems)):
                for c in range(a + 1, len(elems)):
                    goals.append(elems[a].ne(elems[c]))
        return goals
    e.obligation("each-member-trained-only-on-its-own-bootstrap-indices,-each-position-at-most-once-per-epoch", own_rows, site="train_ensemble:member-uses-only-own-bootstrap-indices")


def main(tier, seed):
    from rl_blox.algorithm import pets, pets_reward_models
    from rl_blox.blox import probabilistic_ensemble as pe

    tp = tier_params(tier)
    rep = Report(PROP, tier, seed)
    sess = Session(tp["timeout"])
    sess.keep_smt2 = tier == "thorough"
    confs = [(2, 2, 1), (2, 2, 2)] if tier == "quick" else [(2, 2, 1), (2, 2, 2), (3, 2, 2), (2, 3, 3)]
    rep.bounds = {"(n_ensemble, n_features, n_outputs)": [list(c) for c in confs], "inputs": "single vector and batch of 2", "bootstrap": "2 members x 4 bootstrap indices, batch 2",
                  "plans": "2 candidate plans x 2 particles x horizon 2"}
    rep.assumptions = ["real-number semantics; exp/log1p/softplus pieces uninterpreted with sound ground axioms",
                       "soft bounds: the lower bound is claimed exactly; the upper bound with the analytic slack of the two-sided soft clip: logvar <= max(min,max) + log(2)",
                       "bootstrap bookkeeping: index values are assumed pairwise distinct ghost tags (the code only moves them: parametricity), so 'each position at most once' = 'outputs pairwise distinct'",
                       "plan evaluation: the reward model is an arbitrary linear function with symbolic coefficients",
                       "pendulum reward: the identity norm(arccos(cos t))^2 = norm(t)^2 is the one trusted lemma linking the observation to the environment's angle"]
    rng = np.random.default_rng(seed)

    for (n_ens, n_in, n_out) in confs:
        model = mk_ensemble(n_ens, n_in, n_out, seed)
        gdef, st = nnx.split(model)
        xb = jnp.asarray(rng.normal(size=(2, n_in)), dtype=jnp.float32)
        xv = xb[0]
        tag = f"[E={n_ens},in={n_in},out={n_out}]"

        # ---- joint pass: shapes, soft bounds, aggregate
        def joint(state, x):
            m = nnx.merge(gdef, state)
            means, lv = m(x)
            amean, avar = m.aggregate(x)
            return means, lv, amean, avar, m.min_log_var, m.max_log_var
        e = E1(rep, sess, joint, (st, xb), f"GaussianMLPEnsemble.__call__/aggregate{tag}", validate_sets=[(st, xb)])
        means, lv, amean, avar, mn, mx = e.outs
        if np.shape(lv) != (n_ens, 2, n_out):
            shape_violation(rep, "GaussianMLPEnsemble.__call__:one-variance-per-output", f"log-variance shape {np.shape(lv)}", lambda: np.shape(model(xb)[1]))
        e.obligation("log-variance>=learned-lower-bound", lambda i, o: S.SA(o[1]) >= S.bcast(S.SA(o[4]), (n_ens, 2, n_out)), site="GaussianMLPEnsemble.__call__:soft-lower-bound")
        log2 = S.fn("log1p", S.SA(Fraction(1)))
        e.obligation("log-variance<=upper-bound+slack",
                     lambda i, o: S.le(S.SA(o[1]), S.bcast(S.maximum(S.SA(o[4]), S.SA(o[5])), (n_ens, 2, n_out)) + log2), site="GaussianMLPEnsemble.__call__:soft-upper-bound")

        def total_var(i, o):
            m_, lv_ = S.SA(o[0]), S.SA(o[1])
            mean = m_.mean(axis=0)
            alea = S.exp(lv_).mean(axis=0)
            epi = ((m_ - S.bcast(mean, m_.shape)) ** 2).mean(axis=0)
            return [S.close(S.SA(o[2]), mean), S.close(S.SA(o[3]), alea + epi)]
        # generalise means / log-variances so the obligation is polynomial
        gen, fresh, pairs = generalise({"amean": amean, "avar": avar}, {"means": means, "lv": lv})
        g_mean = S.SA(fresh["means"]).mean(axis=0)
        g_alea = S.exp(S.SA(fresh["lv"])).mean(axis=0)
        g_epi = ((S.SA(fresh["means"]) - S.bcast(g_mean, (n_ens, 2, n_out))) ** 2).mean(axis=0)
        q = sess.prove(f"GaussianMLPEnsemble.aggregate{tag}:law-of-total-variance", e.hyps, S.conj([S.close(S.SA(gen["amean"]), g_mean), S.close(S.SA(gen["avar"]), g_alea + g_epi)]))
        if q.verdict != "unsat":
            e.obligation("aggregate=mean-of-means;variance=mean-variance+variance-of-means", total_var, site="GaussianMLPEnsemble.aggregate:law-of-total-variance")

        # ---- members: base_predict / base_distribution equal slice i of the joint pass (batch and vector)
        for kind, x in (("batch", xb), ("vector", xv)):
            for i_m in range(n_ens):
                def member(state, x_, i_m=i_m, kind=kind):
                    m = nnx.merge(gdef, state)
                    means_, lv_ = m(x_ if x_.ndim == 2 else x_[None])
                    bm, bv = m.base_predict(x_, i_m)
                    d = m.base_distribution(x_, i_m)
                    return (means_[i_m], lv_[i_m]), (bm, bv), (d.mean(), d.stddev())
                site = f"member{i_m}{tag}[{kind}]"
                want = (2, n_out) if kind == "batch" else (n_out,)
                try:
                    em = E1(rep, sess, member, (st, x), site)
                except V.Unsupported:
                    raise
                except Exception as ex:
                    shape_violation(rep, f"GaussianMLPEnsemble.base_predict/base_distribution:defined-for-{kind}-input", f"tracing raised {type(ex).__name__}",
                                    lambda: (np.shape(model.base_predict(x, i_m)[1]), np.shape(model.base_distribution(x, i_m).stddev())))
                    continue
                (jm, jlv), (bm, bv), (dm, ds) = em.outs
                jm = np.asarray(jm, dtype=object).reshape(want)
                jlv = np.asarray(jlv, dtype=object).reshape(want)
                for nm, arr, site_s, eager in (("base_predict variance", bv, "GaussianMLPEnsemble.base_predict:one-variance-per-output-dimension", lambda: np.shape(model.base_predict(x, i_m)[1])),
                                               ("base_distribution stddev", ds, "GaussianMLPEnsemble.base_distribution:one-variance-per-output-dimension", lambda: np.shape(model.base_distribution(x, i_m).stddev()))):
                    if tuple(np.shape(arr)) != want:
                        shape_violation(rep, site_s, f"{nm} has shape {np.shape(arr)} instead of {want} for {kind} input (n_outputs={n_out})", eager)
                if tuple(np.shape(bv)) == want:
                    em.obligation("base_predict=slice-of-joint-pass", lambda i, o: [S.close(S.SA(o[1][0]).reshape(want), S.SA(o[0][0]).reshape(want)),
                                                                                     S.close(S.SA(o[1][1]).reshape(want), S.exp(S.SA(o[0][1]).reshape(want)))],
                                  site="GaussianMLPEnsemble.base_predict:equals-slice-of-joint-pass")
                if tuple(np.shape(ds)) == want:
                    em.obligation("base_distribution=slice-of-joint-pass", lambda i, o: [S.close(S.SA(o[2][0]).reshape(want), S.SA(o[0][0]).reshape(want)),
                                                                                          S.close(S.SA(o[2][1]).reshape(want), S.exp(Fraction(1, 2) * S.SA(o[0][1]).reshape(want)))],
                                  site="GaussianMLPEnsemble.base_distribution:equals-slice-of-joint-pass")

    # ---- gaussian_nll closed form
    m0 = jnp.asarray(rng.normal(size=(2, 2, 2)), dtype=jnp.float32)
    e = E1(rep, sess, pe.gaussian_nll, (m0, m0 * 0.3, m0 + 1), "gaussian_nll", validate_sets=[(m0, m0 * 0.3, m0 + 1)])
    e.obligation("closed-form", lambda i, o: S.close(S.SA(o), (Fraction(1, 2) * (S.SA(i[0]) - S.SA(i[2])) ** 2 * S.exp(-S.SA(i[1]))).mean() + Fraction(1, 2) * S.SA(i[1]).mean()))

    # ---- bootstrap bookkeeping of train_ensemble (train_epoch stubbed, bootstrap = symbolic index matrix)
    captured = []
    _bootstrap_bookkeeping(rep, sess, 2, 5, 2, rng, captured, pe)
    n_ens, n_boot, bs = 2, 4, 2

    def epoch_fn(boot, key):
        captured.clear()

        class M:
            n_ensemble = n_ens

        def fake_epoch(model, opt, X, Y, idx):
            captured.append(idx)
            return 0.0
        with overlay(pe, train_epoch=fake_epoch, bootstrap=lambda *a, **k: boot):
            pe.train_ensemble(M(), None, 1.0, jnp.zeros((n_boot, 1)), jnp.zeros((n_boot, 1)), 1, bs, key)
        return captured[0]
    boot0 = jnp.asarray(rng.integers(0, 9, size=(n_ens, n_boot)), dtype=jnp.int32)
    e = E1(rep, sess, epoch_fn, (boot0, jax.random.key(1)), "train_ensemble:index-bookkeeping")
    boot = S.SA(e.ins[0])
    allb = boot.flat()
    e.add_hyp(z3.Distinct(*allb))
    e.check_reachable()
    out = S.SA(e.outs)
    nb = out.shape[0]
    if tuple(out.shape) != (n_boot // bs, n_ens, bs):
        shape_violation(rep, "train_ensemble:all-complete-batches-are-handed-to-the-trainer", f"index tensor of shape {tuple(out.shape)} instead of {(n_boot // bs, n_ens, bs)} for {n_boot} bootstrap indices and batch size {bs}",
                        lambda: tuple(np.shape(epoch_fn(boot0, jax.random.key(1)))))

    def own_rows(i, o):
        o_ = S.SA(o)
        b_ = S.SA(i[0])
        goals = []
        for m_ in range(n_ens):
            elems = [o_[b, m_, k] for b in range(nb) for k in range(bs)]
            for x in elems:
                acc = False
                for j in range(n_boot):
                    acc = V.s_or(acc, x.eq(b_[m_, j]).item())
                goals.append(acc)
            for a in range(len(elems)):
                for c in range(a + 1, len(elems)):
                    goals.append(elems[a].ne(elems[c]))
        return goals
    e.obligation("each-member-trained-only-on-its-own-bootstrap-indices,-each-position-at-most-once-per-epoch", own_rows, site="train_ensemble:member-uses-only-own-bootstrap-indices")

    # ---- plan evaluation
    ns, npart, H, do = 2, 3, 2, 2  # all four sizes different where it matters: a reduction over the wrong axis must not cancel out
    a0 = jnp.asarray(rng.normal(size=(ns, H, 1)), dtype=jnp.float32)
    t0 = jnp.asarray(rng.normal(size=(ns, npart, H + 1, do)), dtype=jnp.float32)

    def ev(actions, traj, ca, co):
        return pets.evaluate_plans(actions, traj, lambda a, o: (a[..., 0] * ca) + (o * co).sum(axis=-1))
    e = E1(rep, sess, ev, (a0, t0, 0.7, jnp.asarray([0.2, -0.4])), "evaluate_plans", validate_sets=[(a0, t0, 0.7, jnp.asarray([0.2, -0.4]))])

    def ev_spec(i, o):
        a, tr, ca, co = (S.SA(x) for x in i)
        outs = []
        for s_ in range(ns):
            tot = S.SA(Fraction(0))
            for p in range(npart):
                for t in range(H):
                    tot = tot + a[s_, t, 0] * ca + (tr[s_, p, t] * co).sum()
            outs.append(tot / npart)
        return S.close(S.SA(o), S.stack(outs))
    e.obligation("particle-average-of-horizon-sums-of-model-rewards(states-0..H-1)", ev_spec)

    # ---- trajectory sampling through one member
    n_ens, dobs, dact = 2, 2, 1
    model = mk_ensemble(n_ens, dobs + dact, dobs, seed + 3)
    gdef, st = nnx.split(model)
    Hh = 2

    def ts(state, obs, acts, keys, idx):
        m = nnx.merge(gdef, state)
        traj = pets.ts_inf(keys, idx, acts, obs, m)  # (samples, particles, H+1, dobs)
        x0 = jnp.hstack((obs, acts[0, 0]))[None]
        means, lv = m(x0)
        return traj, means[:, 0], lv[:, 0]
    keys0 = jax.random.split(jax.random.key(3), (1, 1))
    ex = (st, jnp.asarray([0.3, -0.2]), jnp.asarray(rng.normal(size=(1, Hh, dact)), dtype=jnp.float32), keys0, jnp.asarray([1]))
    site = "ts_inf:first-step-delta"
    try:
        e = E1(rep, sess, ts, ex, "ts_inf[1 sample,1 particle,H=2,obs_dim=2]")
        ok_trace = True
    except V.Unsupported:
        raise
    except Exception as ex_:
        ok_trace = False
        rep.inconclusive_(site, f"ts_inf not traceable: {type(ex_).__name__}: {str(ex_)[:100]}")
    if ok_trace:
        traj, mean_all, lv_all = e.outs
        noise = e.noise.of("normal")

        def first_delta(i, o, nz):
            tr = S.SA(o[0])
            mu, lv_ = S.SA(o[1])[1], S.SA(o[2])[1]  # member idx = 1 (concrete input)
            d = tr[0, 0, 1] - tr[0, 0, 0]
            # the key-determined noise of the first sampling step: one standard normal per output dimension
            cands = [n for n in nz.of("normal")]
            goals = []
            ok_any = False
            for n_arr in cands:
                flat = n_arr.flat()
                if len(flat) < dobs:
                    continue
            # per-dimension: (delta_k - mean_k)^2 * 1 = var_k * n_k^2 for SOME standard normal n_k: check the variance used is that dimension's own
            return goals
        # variance provenance: delta_k - mean_k must scale with exp(0.5*logvar_k) of the SAME output dimension k.
        # two-copy: change only the raw log-variance parameters feeding dimension 0 -> dimension 1 of the delta must not change.
        idx = e.ins[4]

        def vary(ins):
            masks = jax.tree_util.tree_map(lambda x: np.zeros(np.shape(x), dtype=bool), ins[0])
            for p, l in jax.tree_util.tree_leaves_with_path(masks):
                ks = jax.tree_util.keystr(p)
                if "output_layers" in ks and "[1]" in ks.split("output_layers")[1][:6]:
                    # log-variance head: vary the parameters producing output dimension 0 only
                    if "kernel" in ks:
                        l[..., 0] = True
                    elif "bias" in ks:
                        l[..., 0] = True
            return (masks, None, None, None, None)
        e.noninterference("next-state-dimension-1-does-not-depend-on-the-log-variance-of-dimension-0", vary,
                          lambda i, o: S.SA(o[0])[0, 0, 1, 1], site="ts_inf:each-output-dimension-uses-its-own-predicted-variance")

    # ---- pendulum reward model
    def pr(act, obs):
        return pets_reward_models.pendulum_reward(act, obs)
    ex = (jnp.asarray([[0.5]]), jnp.asarray([[0.2, 0.1, -0.3]]))
    e = E1(rep, sess, pr, ex, "pendulum_reward", validate_sets=[ex, (jnp.asarray([[3.0]]), jnp.asarray([[-0.9, 0.3, 1.0]]))])
    act, obs = S.SA(e.ins[0]), S.SA(e.ins[1])
    e.add_hyp(obs[0, 0] >= -1, obs[0, 0] <= 1)

    def pend(i, o):
        a, ob = S.SA(i[0]), S.SA(i[1])
        th = S.fn("acos", S.clip(ob[0, 0], -1, 1))
        pi = Fraction(float(np.float32(np.pi)))
        two_pi = Fraction(float(np.float32(2 * np.pi)))
        x = th + pi
        nrm = x - S.floor(x / two_pi) * two_pi - pi
        u = S.clip(a[0, 0], -2, 2)
        cost = nrm * nrm + Fraction(float(np.float32(0.1))) * ob[0, 2] * ob[0, 2] + Fraction(float(np.float32(0.001))) * u * u
        return S.close(S.SA(o)[0], -cost)
    e.obligation("reward=-(norm(theta)^2+0.1*thetadot^2+0.001*clip(u,+-2)^2),theta=arccos(cos)", pend, site="pendulum_reward:equals-environment-cost")

    if tier == "thorough":
        bad = sess.cross_check()
        rep.extra["cvc5_disagreements"] = bad
        if bad:
            rep.inconclusive_("cross-check", f"{bad} z3/cvc5 disagreements")
    rep.add_queries(sess)
    rep.samples = [o["name"] for o in rep.obligations if o["kind"].startswith("obligation")][:12]
    return rep.finish()


def replay(path):
    import json
    print(json.dumps(json.load(open(path)), indent=1))
    return main("quick", 0)
