"""C20 Loggers record faithfully and checkpoint exactly at interval crossings (E2)."""
from __future__ import annotations

import os
import time

import z3

from e2_pysym import core as E
from e2_pysym.core import SymInt, cur, explore, sym_bool, sym_int, sym_real
from props.e2common import E2Report, overlay
from symcore.evidence import Report

PROP = "C20"


class RecorderCheckpointer:
    """Stands in for orbax.checkpoint.StandardCheckpointer: records save calls."""

    def __init__(self):
        self.saved = []

    def save(self, path, state):
        self.saved.append(("save", path))

    def wait_until_finished(self):
        self.saved.append(("wait",))


def _ops_program(make_logger, n_ops, ref_of):
    """Arbitrary sequence of start/stop/record calls; compare with a list-based reference."""
    def run(ctx):
        lg = make_logger()
        ref_ep, ref_steps = 0, 0
        ref = {}
        for i in range(n_ops):
            op = sym_int(f"op{i}", 0, 2)
            if op == 0:
                lg.start_new_episode()
                ref_ep = ref_ep + 1
                ctx.log.append("start")
            elif op == 1:
                k = sym_int(f"len{i}", 0, None)
                lg.stop_episode(k)
                ref_steps = ref_steps + k
                ref.setdefault("episode_length", []).append((ref_ep, ref_steps, k))
                ctx.log.append("stop")
            else:
                key = "a" if sym_bool(f"key{i}") else "b"
                val = sym_real(f"val{i}")
                ep = sym_int(f"ep{i}") if sym_bool(f"has_ep{i}") else None
                st = sym_int(f"st{i}") if sym_bool(f"has_st{i}") else None
                lg.record_stat(key, val, episode=ep, step=st)
                ref.setdefault(key, []).append((ref_ep if ep is None else ep, ref_steps if st is None else st, val))
                ctx.log.append(f"record({key})")
        for target in ref_of(lg):
            ctx.check(target.n_episodes == ref_ep, "episode-counter-advances-with-start")
            ctx.check(target.n_steps == ref_steps, "step-counter-advances-with-stop")
            ctx.check(set(target.stats) == set(ref), "recorded-keys")
            for key, rows in ref.items():
                for xi, xk in ((0, "episode"), (1, "step")):
                    x, y = target.get_stat(key, xk)
                    ctx.check(len(x) == len(rows) and len(y) == len(rows), "retrievable-count")
                    for j, row in enumerate(rows):
                        ctx.check(x[j] == row[xi], f"recorded-under-{xk}-in-order")
                        ctx.check(y[j] == row[2], "values-in-recording-order")
    return run


def main(tier, seed):
    from rl_blox.logging import checkpointer as ckmod
    from rl_blox.logging import logger as lgmod
    from props import zoo

    rep = E2Report(PROP, tier, seed)
    n_ops = 3 if tier == "quick" else 4
    rep.r.bounds = {"ops_per_history": n_ops, "op_kinds": ["start_new_episode", "stop_episode(k>=0)", "record_stat(key in {a,b}, value, optional episode/step)"],
                    "checkpoint_step": "one inductive step over UNBOUNDED ints (last>=0, step>=last, interval>=1) + bounded histories of 3 records",
                    "standard_logger_epochs": "1..6 with symbolic interval>=1"}
    rep.r.assumptions = ["orbax StandardCheckpointer replaced by a recording stub (that a written directory is restorable is outside the claim)",
                         "wall-clock fields are not compared", "formatting of symbolic ints uses a witness value (paths/strings are not compared)"]
    rep.r.stubs = ["ocp.StandardCheckpointer -> RecorderCheckpointer", "time.time (real, values ignored)"]

    # ---- faithful recording
    rep.run("MemoryLogger:record/get_stat", _ops_program(lambda: lgmod.MemoryLogger(), n_ops, lambda lg: [lg]), fn="MemoryLogger.{start_new_episode,stop_episode,record_stat,get_stat}")
    rep.run("StandardLogger:record/get_stat", _ops_program(lambda: lgmod.StandardLogger(verbose=0), n_ops, lambda lg: [lg]), fn="StandardLogger.{...}")
    rep.run("LoggerList:identical-records", _ops_program(lambda: lgmod.LoggerList([lgmod.MemoryLogger(), lgmod.MemoryLogger(), lgmod.StandardLogger(verbose=0)]), n_ops,
                                                         lambda lg: list(lg.loggers)), fn="LoggerList fan-out")

    # ---- StandardLogger: checkpoint on every interval-th recorded epoch
    model = zoo.mlp(1, 1, (), 0)

    def std_epochs(ctx):
        lg = lgmod.StandardLogger(verbose=0)
        lg.checkpointer = RecorderCheckpointer()
        f = sym_int("interval", 1, None)
        lg.define_checkpoint_frequency("q", f)
        n = 4 if tier == "quick" else 6
        for i in range(1, n + 1):
            before = len(lg.checkpointer.saved)
            lg.record_epoch("q", model)
            calls = lg.checkpointer.saved[before:]
            n_saves = len([c for c in calls if c[0] == "save"])
            want = (i % f) == 0
            ctx.check((n_saves == 1) == want, "save-iff-epoch-count-multiple-of-interval")
            ctx.check(n_saves <= 1, "at-most-one-checkpoint-per-record")
            ctx.check(len(lg.checkpoint_path["q"]) == len([c for c in lg.checkpointer.saved if c[0] == "save"]), "every-listed-path-was-saved")
    rep.run("StandardLogger:epoch-cadence", std_epochs, fn="StandardLogger.record_epoch/_save_checkpoint")

    # ---- OrbaxCheckpointer: inductive step over unbounded ints
    scratch = os.path.join(os.path.dirname(os.path.dirname(os.path.abspath(__file__))), ".scratch")
    os.makedirs(scratch, exist_ok=True)

    class FakeOcp:
        StandardCheckpointer = RecorderCheckpointer

    def mk_ck():
        with overlay(ckmod, ocp=FakeOcp):
            return ckmod.OrbaxCheckpointer(checkpoint_dir=scratch, verbose=0)

    def ck_step(ctx):
        ck = mk_ck()
        f = sym_int("interval", 1, None)
        ck.define_checkpoint_frequency("q", f)
        last = sym_int("last", 0, None)
        step = sym_int("step", 0, None)
        ctx.assume(step >= last)
        ck.last_step["q"] = last
        ck.record_epoch("q", model, step=step)
        saves = len([c for c in ck.checkpointer.saved if c[0] == "save"])
        crossed = (step // f) > (last // f)
        ctx.check((saves == 1) == crossed, "save-iff-step-passed-a-multiple-of-the-interval")
        ctx.check(saves <= 1, "exactly-one-checkpoint-per-crossing-record")
        ctx.check(len(ck.checkpoint_path["q"]) == saves, "path-listed-iff-saved")
        ctx.check(ck.last_step["q"] == step, "previous-record-step-updated")
        if saves:
            order = [c[0] for c in ck.checkpointer.saved]
            ctx.check(order == ["save", "wait"], "path-appended-only-after-save-finished")
    rep.run("OrbaxCheckpointer:cadence-inductive-step", ck_step, fn="OrbaxCheckpointer.record_epoch")

    def ck_history(ctx):
        ck = mk_ck()
        f = sym_int("interval", 1, None)
        ck.define_checkpoint_frequency("q", f)
        prev = 0
        total = 0
        want_total = 0
        for i in range(3):
            step = sym_int(f"step{i}", 0, None)
            ctx.assume(step >= prev)
            before = len(ck.checkpoint_path["q"])
            ck.record_epoch("q", model, step=step)
            grew = len(ck.checkpoint_path["q"]) - before
            crossed = (step // f) > (prev // f)
            ctx.check((grew == 1) == crossed, "history:checkpoint-set-grows-exactly-at-crossings")
            prev = step
    rep.run("OrbaxCheckpointer:cadence-history(3 records from the initial state)", ck_history, fn="OrbaxCheckpointer.record_epoch")

    def ck_implicit(ctx):
        """implicit steps: the checkpointer's own step counter is the sum of the stopped episodes' lengths, and a record
        without an explicit step is filed under it (interval crossings judged on that counter)"""
        ck = mk_ck()
        f = sym_int("interval", 1, None)
        ck.define_checkpoint_frequency("q", f)
        total, prev = 0, 0
        for i in range(3):
            k = sym_int(f"len{i}", 0, None)
            ck.start_new_episode()
            ck.stop_episode(k)
            total = total + k
            ctx.check(ck.n_steps == total, "step-counter-advances-with-stop")
            before = len(ck.checkpoint_path["q"])
            ck.record_epoch("q", model)
            grew = len(ck.checkpoint_path["q"]) - before
            ctx.check((grew == 1) == ((total // f) > (prev // f)), "history:checkpoint-set-grows-exactly-at-crossings")
            prev = total
    rep.run("OrbaxCheckpointer:implicit-steps(3 episodes)", ck_implicit, fn="OrbaxCheckpointer.stop_episode/record_epoch")

    if tier == "thorough":
        _crosshair_twin(rep)
    return rep.finish()


def _crosshair_twin(rep):
    """Independent second engine on the cadence step of the REAL OrbaxCheckpointer.record_epoch: CrossHair.  'Confirmed
    over all paths' / 'Not confirmed' are recorded per twin; only a counterexample (which would contradict the primary
    engine) makes the run inconclusive."""
    import os
    import subprocess
    import sys
    here = os.path.dirname(os.path.abspath(__file__))
    cmd = [sys.executable, "-m", "crosshair", "check", "--report_all", "--per_condition_timeout", "60", os.path.join(here, "crosshair_c20.py")]
    try:
        out = subprocess.run(cmd, capture_output=True, text=True, timeout=400, env=dict(os.environ, JAX_PLATFORMS="cpu")).stdout
    except Exception as ex:  # noqa
        out = f"crosshair failed: {ex}"
    lines = [l for l in out.splitlines() if "crosshair_c20.py" in l]
    counter = [l for l in lines if "false when calling" in l or ": error:" in l]
    rep.r.extra["crosshair_twin"] = {"cmd": " ".join(cmd[1:]), "confirmed": sum("Confirmed over all paths" in l for l in lines),
                                     "not_confirmed": sum("Not confirmed" in l for l in lines), "counterexamples": len(counter), "output": out.strip()[-600:]}
    if counter:
        rep.r.inconclusive_("OrbaxCheckpointer:cadence:crosshair-twin", "CrossHair reports a counterexample the primary engine does not: " + counter[0][-200:])


def replay(path):
    import json
    print(json.dumps(json.load(open(path)), indent=1))
    return main("quick", 0)
