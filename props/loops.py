"""F-LOOP: run the real train_* code objects on the recording world (loopworld) under E2 and
return a Trace that the property-specific checkers (C01, C06, C10, C11, C13, C15) inspect."""
from __future__ import annotations

import contextlib
import importlib
import types

import numpy as np

from e2_pysym import core as E
from e2_pysym.core import cur, sym_bool, sym_int, sym_real
from props import loopworld as W
from props.e2common import overlay


class Trace:
    def __init__(self, algo, world, env, buf, cfg, result, returned_step, start_step, budget):
        self.algo, self.w, self.env, self.buf, self.cfg = algo, world, env, buf, cfg
        self.result, self.returned_step, self.start_step, self.budget = result, returned_step, start_step, budget

    def loop_step_of(self, env_steps_at_event):
        """The loop's `step` variable while env step #k (1-based) is being processed."""
        return self.start_step + env_steps_at_event - 1


def _multi_overlay(mod, names):
    return overlay(mod, **names)


# ------------------------------------------------------------------------------------------------ DQN family
def _param(name, symbolic, lo, hi, default):
    return sym_int(name, lo, hi) if name in symbolic else default


def run_dqn_family(ctx, which, K, start, symbolic=("batch_size", "total_episodes")):
    """which in {dqn, nature_dqn, ddqn, per}; K = remaining budget; start = global_step.
    `symbolic` names the configuration values that are symbolic in this run (the others are fixed)."""
    modname = {"dqn": "dqn", "nature_dqn": "nature_dqn", "ddqn": "ddqn", "per": "per"}[which]
    fname = {"dqn": "train_dqn", "nature_dqn": "train_nature_dqn", "ddqn": "train_ddqn", "per": "train_ddqn_per"}[which]
    mod = importlib.import_module(f"rl_blox.algorithm.{modname}")
    w = W.World()
    env = W.RecEnv(w, discrete=True)
    rec = W.Recorder(w, env)
    buf = W.RecBuffer(w, env)
    buf.with_ratio = which == "per"
    q, opt = W.StubModule("q"), W.StubModule("optimizer")
    total = start + K
    cfg = {"batch_size": _param("batch_size", symbolic, 0, start + 2, 1)}
    names = dict(
        greedy_policy=rec.fn("greedy_policy", ret=lambda k, net, obs: 2000 + k),
        train_step_with_loss=rec.fn("train_step", ret=(0.0, (0.0, 0.0)) if which == "per" else (0.0, 0.0)),
        nnx=W.NnxShim(w, env), trange=W.trange_stub, jax=W.JaxShim("rolls" in symbolic),
    )
    jshim = names["jax"]
    if "schedule" in symbolic:
        # exploration schedule as an arbitrary array of probabilities (one fresh symbol per absolute step): tiny budgets
        # make the real linear schedule constant, which would hide WHICH entry a loop reads
        def sched_stub(total_timesteps, *a, **k):
            n_call = len(getattr(w, "schedule_calls", []))
            w.schedule_calls = getattr(w, "schedule_calls", []) + [(total_timesteps, a, k)]
            sched = [sym_real(f"sched{n_call}_{i}", 0, 1) for i in range(int(total_timesteps))]
            if not a and not k:  # the exploration schedule is the call with the default start/end/fraction
                w.schedule_eps = sched
            return sched
        names["linear_schedule"] = sched_stub
    kwargs = dict(batch_size=cfg["batch_size"], total_timesteps=total, seed=1, logger=None, global_step=start, progress_bar=False)
    if which != "dqn":
        cfg["update_frequency"] = _param("update_frequency", symbolic, 1, 3, 1)
        cfg["target_update_frequency"] = _param("target_update_frequency", symbolic, 1, 3, 2)
        cfg["learning_starts"] = _param("learning_starts", symbolic, 0, total + 1, 0)
        cfg["total_episodes"] = (sym_int("total_episodes", 1, 2) if sym_bool("limit_episodes") else None) if "total_episodes" in symbolic else None
        names["hard_target_net_update"] = rec.fn("hard_target_net_update")
        kwargs.update(update_frequency=cfg["update_frequency"], target_update_frequency=cfg["target_update_frequency"],
                      learning_starts=cfg["learning_starts"], total_episodes=cfg["total_episodes"])
    if which == "per":
        names["per_priority"] = rec.fn("per_priority", ret=1.0)
    cfg["q"], cfg["optimizer"] = q, opt
    with overlay(mod, **names):
        res = getattr(mod, fname)(q, env, buf, opt, **kwargs)
    returned = getattr(res, "global_step", None)
    w.rolls = list(np.asarray(jshim.random.draws[0], dtype=object).reshape(-1)) if jshim.random.draws else None
    return Trace(which, w, env, buf, cfg, res, returned, start, K)


# ------------------------------------------------------------------------------------------------ generic checkers
def finished_episodes(env):
    """list over executed steps of the (symbolic) 'episode ended at this step' flags"""
    return [W.b_or(s["terminated"], s["truncated"]) for s in env.steps]


def check_budget_and_accounting(ctx, tr: Trace, counts_returned=True, label=""):
    env = tr.env
    ctx.check(env.n_steps <= tr.budget, label + "never-executes-more-steps-than-the-remaining-budget")
    te = tr.cfg.get("total_episodes")
    if te is not None:
        n_done = 0
        for k, f in enumerate(finished_episodes(env)):
            # this step must not have been executed if the episode limit was already reached
            ctx.check(n_done < te, label + "stops-once-the-requested-number-of-episodes-has-finished")
            n_done = n_done + E.wrap(E.z3.If(E.as_z3_bool(f), 1, 0)) if not isinstance(f, bool) else n_done + int(f)
    # ... and it must not stop early: either the budget is exhausted or the requested episodes are finished
    n_fin = 0
    for f in finished_episodes(env):
        n_fin = n_fin + (E.wrap(E.z3.If(E.as_z3_bool(f), 1, 0)) if not isinstance(f, bool) else int(f))
    if te is not None:
        ctx.check((env.n_steps == tr.budget) | (n_fin == te), label + "runs-until-the-budget-is-used-or-the-requested-episodes-have-finished")
    else:
        ctx.check(env.n_steps == tr.budget, label + "runs-until-the-budget-is-used-or-the-requested-episodes-have-finished")
    if counts_returned and tr.returned_step is not None:
        ctx.check(tr.returned_step == tr.start_step + env.n_steps, label + "reported-step-count=start+executed",
                  detail={"returned": str(tr.returned_step), "start": tr.start_step, "executed": env.n_steps})


def check_stored_experience(ctx, tr: Trace, label="", action_eq=None, term_key="termination"):
    env, adds = tr.env, tr.buf.adds
    ctx.check(len(adds) == env.n_steps, label + "one-stored-transition-per-executed-step")
    for i, (a, s) in enumerate(zip(adds, env.steps)):
        ctx.check(W.tagval(a["observation"]) == W.tagval(s["obs"]), label + "stored-observation-is-the-one-the-environment-last-returned(reset-obs-after-episode-end)")
        same_action = (action_eq or (lambda x, y: W.tagval(x) == W.tagval(y)))(a["action"], s["action"])
        ctx.check(same_action, label + "stored-action-is-the-action-passed-to-the-environment")
        ctx.check(a["reward"] == s["reward"], label + "stored-reward-is-that-step's-reward")
        ctx.check(W.tagval(a["next_observation"]) == W.tagval(s["next_obs"]), label + "stored-successor-is-that-step's-observation")
        ctx.check(a[term_key] == s["terminated"], label + "stored-termination-flag-is-that-step's-flag")


def check_policy_sees_current_obs(ctx, tr: Trace, event, obs_arg, label=""):
    """Every call of the acting stub is conditioned on the observation the environment last returned."""
    for (kind, at, p) in tr.w.of(event):
        obs = obs_arg(p)
        # the action for env step at+1 is being chosen: current observation = obs-before of that step (if executed)
        if at < len(tr.env.steps):
            ctx.check(W.tagval(obs) == W.tagval(tr.env.steps[at]["obs"]), label + "acting-policy-is-conditioned-on-the-current-observation")


# ------------------------------------------------------------------------------------------------ DDPG / TD3 / TD3+LAP / SAC
class StubPolicy(W.StubModule):
    def __init__(self, name, world, env):
        super().__init__(name)
        self.w, self.env, self.k = world, env, 0

    def sample(self, obs, key):
        self.k += 1
        a = np.array([3000.0 + self.k], dtype=np.float32)
        self.w.emit("policy_sample", self.env.n_steps, obs=obs, key=key, action=a)
        return a


class StubEntropy:
    def __init__(self, world, env):
        self.w, self.env = world, env
        self.alpha_ = 0.2

    def update(self, *a, **k):
        self.w.emit("entropy_update", self.env.n_steps)
        return 0.0


def run_continuous(ctx, which, K, start, symbolic=("learning_starts", "total_episodes", "policy_delay")):
    """which in {ddpg, td3, td3_lap, sac}."""
    mod = importlib.import_module(f"rl_blox.algorithm.{which}")
    fname = f"train_{which}"
    w = W.World()
    env = W.RecEnv(w, discrete=False)
    rec = W.Recorder(w, env)
    buf = W.RecBuffer(w, env)
    policy = StubPolicy("policy", w, env)
    q, popt, qopt = W.StubModule("q"), W.StubModule("policy_optimizer"), W.StubModule("q_optimizer")
    total = start + K
    cfg = {"policy": policy, "q": q}
    cfg["learning_starts"] = _param("learning_starts", symbolic, 0, total + 1, 0)
    has_te = which != "td3_lap"
    cfg["total_episodes"] = (sym_int("total_episodes", 1, 2) if sym_bool("limit_episodes") else None) if ("total_episodes" in symbolic and has_te) else None
    cfg["gradient_steps"] = 1
    cfg["tau"] = 0.25

    def mk_sampler(kind):
        def make(space, *a):
            w.emit("make_" + kind, env.n_steps, space=space, args=a)

            def sampler(pol, obs, key):
                a_ = np.array([(2000.0 if kind == "sample_actions" else 4000.0) + len(w.of(kind)) + 1], dtype=np.float32)
                w.emit(kind, env.n_steps, policy=pol, obs=obs, key=key, action=a_)
                return a_
            return sampler
        return make
    names = dict(
        train_step_with_loss=rec.fn("train_step", ret=(0.0, (0.0, np.zeros(1))) if which == "td3_lap" else (0.0, 0.0)),
        nnx=W.NnxShim(w, env), trange=W.trange_stub, jax=W.JaxShim(False),
        soft_target_net_update=rec.fn("soft_target_net_update"),
    )
    kwargs = dict(total_timesteps=total, seed=1, logger=None, global_step=start, progress_bar=False, learning_starts=cfg["learning_starts"],
                  batch_size=2, tau=cfg["tau"], replay_buffer=buf)
    if has_te:
        kwargs["total_episodes"] = cfg["total_episodes"]
    if which in ("ddpg", "td3", "td3_lap"):
        names["make_sample_actions"] = mk_sampler("sample_actions")
        names["ddpg_update_actor"] = rec.fn("update_actor", ret=0.0)
        kwargs["gradient_steps"] = cfg["gradient_steps"]
    if which in ("td3", "td3_lap"):
        names["make_sample_target_actions"] = mk_sampler("sample_target_actions")
        cfg["policy_delay"] = _param("policy_delay", symbolic, 1, 3, 2)
        kwargs["policy_delay"] = cfg["policy_delay"]
    if which == "td3_lap":
        names["lap_priority"] = rec.fn("lap_priority", ret=1.0)
    if which == "sac":
        names["sac_update_actor"] = rec.fn("update_actor", ret=0.0)
        cfg["policy_delay"] = _param("policy_delay", symbolic, 1, 3, 2)
        cfg["target_network_delay"] = _param("target_network_delay", symbolic, 1, 3, 1)
        kwargs.update(policy_delay=cfg["policy_delay"], target_network_delay=cfg["target_network_delay"], entropy_control=StubEntropy(w, env), autotune=False)
    with overlay(mod, **names):
        res = getattr(mod, fname)(env, policy, popt, q, qopt, **kwargs)
    returned = getattr(res, "global_step", getattr(res, "steps_trained", None))
    cfg["policy_target"] = getattr(res, "policy_target", None)
    cfg["q_target"] = getattr(res, "q_target", None)
    return Trace(which, w, env, buf, cfg, res, returned, start, K)


# ------------------------------------------------------------------------------------------------ TD7
class SalePolicyStub(W.StubModule):
    """Stands in for DeterministicSALEPolicy(embedding, actor): keeps the identity of its parts."""

    def __init__(self, embedding, actor):
        super().__init__(f"SALEPolicy({embedding},{actor})")
        object.__setattr__(self, "embedding", embedding)
        object.__setattr__(self, "actor", actor)


def _samplers(w, env):
    def mk_sampler(kind):
        def make(space, *a):
            w.emit("make_" + kind, env.n_steps, space=space, args=a)

            def sampler(*args):
                pol = args[0] if len(args) == 3 else None
                obs, key = args[-2], args[-1]
                a_ = np.array([(2000.0 if kind == "sample_actions" else 4000.0) + len(w.of(kind)) + 1], dtype=np.float32)
                w.emit(kind, env.n_steps, policy=pol, obs=obs, key=key, action=a_)
                return a_
            return sampler
        return make
    return mk_sampler


def run_td7(ctx, K, start, symbolic=("learning_starts", "total_episodes"), use_checkpoints=True):
    from rl_blox.algorithm import td7 as mod
    w = W.World()
    env = W.RecEnv(w, discrete=False)
    rec = W.Recorder(w, env)
    buf = W.RecBuffer(w, env)
    total = start + K
    cfg = {}
    cfg["learning_starts"] = _param("learning_starts", symbolic, 0, total + 1, 0)
    cfg["total_episodes"] = (sym_int("total_episodes", 1, 2) if sym_bool("limit_episodes") else None) if "total_episodes" in symbolic else None
    cfg["policy_delay"] = _param("policy_delay", symbolic, 1, 3, 2)
    cfg["target_delay"] = _param("target_delay", symbolic, 1, 3, 2)
    cfg["max_episodes_when_checkpointing"] = _param("max_episodes_when_checkpointing", symbolic, 1, 3, 2)
    cfg["steps_before_checkpointing"] = _param("steps_before_checkpointing", symbolic, 0, total + 1, 1)
    emb, eopt, actor, aopt, critic, copt = (W.StubModule(n) for n in ("embedding", "embedding_optimizer", "actor", "actor_optimizer", "critic", "critic_optimizer"))
    cfg.update(embedding=emb, actor=actor, critic=critic)
    mk = _samplers(w, env)
    names = dict(
        nnx=W.NnxShim(w, env), trange=W.trange_stub, jax=W.JaxShim(False),
        make_sample_actions=mk("sample_actions"), make_sample_target_actions=mk("sample_target_actions"),
        DeterministicSALEPolicy=SalePolicyStub,
        update_sale=rec.fn("update_sale", ret=0.0),
        td7_update_critic=rec.fn("update_critic", ret=(0.0, np.zeros(1), np.zeros(1))),
        td7_update_actor=rec.fn("update_actor", ret=0.0),
        hard_target_net_update=rec.fn("hard_target_net_update"),
        lap_priority=rec.fn("lap_priority", ret=1.0),
    )
    # observe the real assessment function
    real_assess = mod.assess_performance_and_checkpoint

    def assess(*a, **k):
        r = real_assess(*a, **k)
        w.emit("assess", env.n_steps, steps_per_episode=a[1], episode_return=a[2], epoch=a[3], update_checkpoint=r[0], released=r[1])
        return r
    names["assess_performance_and_checkpoint"] = assess
    real_train = mod._train_step

    def train_step(*a, **k):
        w.emit("train_iteration", env.n_steps, epoch=a[11])
        return real_train(*a, **k)
    names["_train_step"] = train_step
    with overlay(mod, **names):
        res = mod.train_td7(env, emb, eopt, actor, aopt, critic, copt, seed=1, total_timesteps=total, total_episodes=cfg["total_episodes"],
                            target_delay=cfg["target_delay"], policy_delay=cfg["policy_delay"], use_checkpoints=use_checkpoints,
                            max_episodes_when_checkpointing=cfg["max_episodes_when_checkpointing"], steps_before_checkpointing=cfg["steps_before_checkpointing"],
                            batch_size=2, learning_starts=cfg["learning_starts"], replay_buffer=buf, logger=None, global_step=start, progress_bar=False)
    cfg["use_checkpoints"] = use_checkpoints
    return Trace("td7", w, env, buf, cfg, res, res.global_step, start, K)


# ------------------------------------------------------------------------------------------------ MR.Q
class SubBuf(W.RecBuffer):
    def __init__(self, world, env):
        super().__init__(world, env, fields=("observation", "action", "reward", "next_observation", "terminated", "truncated"))

    def sample_batch(self, batch_size, horizon, include_intermediate, rng):
        self.n_samples += 1
        self.w.emit("sample", self.env.n_steps, batch_size=batch_size, horizon=horizon, include_intermediate=include_intermediate)
        return self.Batch(**{f: np.array([[7000.0 + self.n_samples]], dtype=np.float32) for f in self.fields})


def run_mrq(ctx, K, start, symbolic=("learning_starts", "total_episodes")):
    from rl_blox.algorithm import mrq as mod
    w = W.World()
    env = W.RecEnv(w, discrete=False)
    rec = W.Recorder(w, env)
    buf = SubBuf(w, env)
    total = start + K
    cfg = {}
    cfg["learning_starts"] = _param("learning_starts", symbolic, 0, total + 1, 0)
    cfg["total_episodes"] = (sym_int("total_episodes", 1, 2) if sym_bool("limit_episodes") else None) if "total_episodes" in symbolic else None
    cfg["target_delay"] = _param("target_delay", symbolic, 1, 3, 2)
    pwe, eopt, popt, q, qopt = (W.StubModule(n) for n in ("policy_with_encoder", "encoder_optimizer", "policy_optimizer", "q", "q_optimizer"))
    cfg.update(policy_with_encoder=pwe, q=q)
    mk = _samplers(w, env)
    names = dict(
        nnx=W.NnxShim(w, env), trange=W.trange_stub, jax=W.JaxShim(False),
        make_sample_actions=mk("sample_actions"), make_sample_target_actions=mk("sample_target_actions"),
        update_model_based_encoder=rec.fn("update_encoder", ret=np.zeros(5)),
        update_critic_and_policy=rec.fn("update_critic_and_policy", ret=(0.0, 0.0, (0.0, 0.0), 0.0, np.zeros(1))),
        hard_target_net_update=rec.fn("hard_target_net_update"),
        lap_priority=rec.fn("lap_priority", ret=1.0),
    )
    with overlay(mod, **names):
        res = mod.train_mrq(env, pwe, eopt, popt, q, qopt, np.zeros(3), seed=1, total_timesteps=total, total_episodes=cfg["total_episodes"],
                            target_delay=cfg["target_delay"], batch_size=2, learning_starts=cfg["learning_starts"], encoder_horizon=2, q_horizon=1,
                            replay_buffer=buf, logger=None, global_step=start, progress_bar=False)
    cfg["policy_with_encoder_target"] = res.policy_with_encoder_target
    cfg["q_target"] = res.q_target
    return Trace("mrq", w, env, buf, cfg, res, res.global_step, start, K)


RUNNERS = {}
EXTRA_C01 = []


# ------------------------------------------------------------------------------------------------ PETS
def run_pets(ctx, which, K, start=0, symbolic=("learning_starts",)):
    import jax.numpy as jnp
    from rl_blox.algorithm import pets as mod
    w = W.World()
    env = W.RecEnv(w, discrete=False)
    rec = W.Recorder(w, env)
    buf = W.RecBuffer(w, env)
    cfg = {"learning_starts": _param("learning_starts", symbolic, 0, K + 1, 0)}
    H = 2

    def planner(config, model, plan, key, obs):
        k = len(w.of("planner")) + 1
        a = jnp.full((H, 1), 5000.0 + k)
        w.emit("planner", env.n_steps, obs=obs, warmup=(env.n_resets == 0), action=a[0])
        return a
    names = dict(nnx=W.NnxShim(w, env), trange=W.trange_stub, _init_mpc_optimizer_cem=lambda *a, **k: (None, None),
                 _pets_optimize=planner, update_dynamics_model=rec.fn("update_dynamics_model", ret=0.0))
    dyn = W.StubModule("dynamics_model")
    with overlay(mod, **names):
        res = mod.train_pets(env, (lambda *a: 0.0), dyn, H, 2, 4, n_opt_iter=1, seed=1, total_timesteps=K, learning_starts=cfg["learning_starts"],
                             n_steps_per_iteration=2, replay_buffer=buf, logger=None, progress_bar=False)
    return Trace("pets", w, env, buf, cfg, res, None, 0, K)


def check_pets(ctx, tr):
    check_stored_experience(ctx, tr)
    for (kind, at, p) in tr.w.of("planner"):
        if p["warmup"]:
            continue
        if at < len(tr.env.steps):
            ctx.check(W.tagval(p["obs"]) == W.tagval(tr.env.steps[at]["obs"]), "acting-policy-is-conditioned-on-the-current-observation")
            ctx.check(W.tagval(p["action"]) == W.tagval(tr.env.steps[at]["action"]), "action-passed-to-the-environment-is-the-planner's-first-action")


RUNNERS["pets"] = lambda ctx, which, K, start: (lambda tr: (check_pets(ctx, tr), tr)[1])(run_pets(ctx, which, K, start))
EXTRA_C01.append(("pets", "pets"))


# ------------------------------------------------------------------------------------------------ tabular learners
def run_tabular(ctx, which, K, start=0, symbolic=()):
    """which in {q_learning, sarsa, double_q_learning, monte_carlo, dynaq}.  Tables are real (small) arrays;
    policies and update functions are recording stubs that return fresh tagged tables."""
    import jax.numpy as jnp
    mod = importlib.import_module(f"rl_blox.algorithm.{which}")
    w = W.World()
    env = W.RecEnv(w, discrete=True, int_obs=True)
    env.action_space = W.gym.spaces.Discrete(16)
    rec = W.Recorder(w, env)
    S_, A_ = 40, 16
    counter = {"k": 0}

    def new_table(*a, **k):
        counter["k"] += 1
        return jnp.full((S_, A_), float(counter["k"]))

    def act_stub(name, base):
        def f(q, obs, *a, **k):
            n = len(w.of(name)) + 1
            act = base + n
            w.emit(name, env.n_steps, q=q, obs=obs, action=act)
            return act
        return f
    q0 = jnp.zeros((S_, A_))
    names = dict(trange=W.trange_stub, epsilon_greedy_policy=act_stub("epsilon_greedy_policy", 0))
    cfg = {"q0": q0}
    kwargs = dict(total_timesteps=K, seed=1, logger=None, progress_bar=False)
    if which in ("q_learning", "sarsa"):
        names["_update_policy"] = rec.fn("update", ret=new_table)
    if which == "q_learning":
        names["greedy_policy"] = act_stub("greedy_policy", 8)
    if which == "double_q_learning":
        names["_dql_update"] = rec.fn("update", ret=new_table)
        names["jax"] = W.JaxShim("rolls" in symbolic or True)
    if which == "monte_carlo":
        names["update"] = rec.fn("update", ret=lambda k, *a, **kw: (new_table(), new_table()))
        names["float"] = lambda x: 0.0 if isinstance(x, (E.SymReal, E.SymInt)) else float(x)  # rewards only feed the (stubbed) update
    if which == "dynaq":
        names["q_learning_update"] = rec.fn("update", ret=new_table)
        names["planning"] = rec.fn("planning", ret=lambda k, *a, **kw: a[-1])
        names["counter_update"] = rec.fn("counter_update", ret=lambda k, c, *a: c)
        names["model_update"] = rec.fn("model_update", ret=lambda k, m, *a: m)
        names["float"] = W.identity_float
        kwargs["n_planning_steps"] = 1
    with overlay(mod, **names):
        fn = getattr(mod, f"train_{which}")
        if which == "double_q_learning":
            res = fn(env, q0, jnp.zeros((S_, A_)) + 0.5, **kwargs)
        else:
            res = fn(env, q0, **kwargs)
    return Trace(which, w, env, None, cfg, res, None, 0, K)


def check_tabular(ctx, tr):
    """The arguments of every update equal the environment log of that step; actions come from the policy on the current observation."""
    which, env = tr.algo, tr.env
    eg = {}
    for (_, at, p) in tr.w.of("epsilon_greedy_policy"):
        eg.setdefault(at, []).append(p)
    for k, st in enumerate(env.steps):
        cands = [p for p in eg.get(k, []) if p["action"] == st["action"]]
        ctx.check(len(cands) == 1, "action-passed-to-the-environment-is-the-policy's-action")
        ctx.check(len(cands) == 1 and W.tagval(cands[0]["obs"]) == W.tagval(st["obs"]), "acting-policy-is-conditioned-on-the-current-observation(reset-obs-after-episode-end)")
    ups = tr.w.of("update")
    if which in ("q_learning", "sarsa", "double_q_learning", "dynaq"):
        ctx.check(len(ups) == env.n_steps, "one-update-per-executed-step")
        for (_, at, p), st in zip(ups, env.steps):
            a = p["args"]
            if which == "q_learning":      # (q, obs, act, rew, nobs, next_act, gamma, terminated, lr)
                obs, act, rew, nobs, nact, term = a[1], a[2], a[3], a[4], a[5], a[7]
            elif which == "sarsa":         # (q, obs, act, rew, nobs, next_act, gamma, lr, terminated)
                obs, act, rew, nobs, nact, term = a[1], a[2], a[3], a[4], a[5], a[8]
            elif which == "double_q_learning":  # (key, q1, q2, obs, act, rew, nobs, gamma, lr, terminated)
                obs, act, rew, nobs, nact, term = a[3], a[4], a[5], a[6], None, a[9]
            else:                          # dynaq: (obs, act, rew, nobs, gamma, lr, q)
                obs, act, rew, nobs, nact, term = a[0], a[1], a[2], a[3], None, None
            ctx.check(W.tagval(obs) == W.tagval(st["obs"]), "update-uses-the-observation-the-environment-last-returned")
            ctx.check(act == st["action"], "update-uses-the-executed-action")
            ctx.check(rew == st["reward"], "update-uses-that-step's-reward")
            ctx.check(W.tagval(nobs) == W.tagval(st["next_obs"]), "update-uses-that-step's-successor")
            if term is not None:
                ctx.check(term == st["terminated"], "update-uses-that-step's-termination-flag(not-truncation)")
        if which == "q_learning":
            gp = tr.w.of("greedy_policy")
            for (_, at, p), (_, at2, g), st in zip(ups, gp, env.steps):
                ctx.check(p["args"][5] == g["action"] and W.tagval(g["obs"]) == W.tagval(st["next_obs"]), "q-learning-bootstraps-from-the-greedy-action-at-the-successor")
                ctx.check(g["q"] is p["args"][0], "greedy-successor-action-uses-the-table-being-updated")
    if which == "monte_carlo":
        # one update per finished episode, on exactly that episode's (obs, action, reward) slices
        start = 0
        ep = 0
        for k, st in enumerate(env.steps):
            done = W.b_or(st["terminated"], st["truncated"])
            if done is True or (not isinstance(done, bool) and bool(done)):
                ctx.check(ep < len(ups), "monte-carlo:update-at-every-episode-end")
                a = ups[ep][2]["args"]
                rews, obs_, acts = a[2], a[3], a[4]
                ctx.check(len(rews) == k - start + 1, "monte-carlo:episode-slice-length")
                for j in range(start, k + 1):
                    ctx.check(int(obs_[j - start]) == W.tagval(env.steps[j]["obs"]) and int(acts[j - start]) == env.steps[j]["action"], "monte-carlo:episode-slice-holds-that-episode's-steps")
                start = k + 1
                ep += 1
        ctx.check(len(ups) == ep, "monte-carlo:no-update-outside-episode-ends")


RUNNERS["tabular"] = lambda ctx, which, K, start: (lambda tr: (check_tabular(ctx, tr), tr)[1])(run_tabular(ctx, which, K, start))
for _w in ("q_learning", "sarsa", "double_q_learning", "monte_carlo", "dynaq"):
    EXTRA_C01.append(("tabular", _w))


# ------------------------------------------------------------------------------------------------ schedulers (contract stub for train_st)
class TaskSetStub:
    """task_set with persistent per-task recording environments."""

    def __init__(self, world, n_tasks):
        self.envs_ = [W.RecEnv(world, discrete=False, symbolic_rewards=False) for _ in range(n_tasks)]

    def get_task(self, task_id):
        return self.envs_[int(task_id)]

    def __len__(self):
        return len(self.envs_)


class MTBufferStub:
    def __init__(self, world):
        self.w = world
        self.selected = []

    def select_task(self, task_id):
        self.selected.append(int(task_id))


def train_st_contract(world):
    """Contract of a single-task routine (verified for the real routines by the loop checks above): run until the
    step counter reaches total_timesteps or total_episodes episodes have finished; report start + executed."""
    from collections import namedtuple
    R = namedtuple("STResult", ["global_step"])

    def train_st(env=None, *a, total_timesteps=None, total_episodes=None, global_step=0, **kw):
        step = global_step
        eps = 0
        env.reset(seed=kw.get("seed"))
        n = 0
        while step < total_timesteps:
            _, _, term, trunc, _ = env.step(np.zeros(1, dtype=np.float32))
            step += 1
            n += 1
            if term or trunc:
                eps += 1
                if total_episodes is not None and eps >= total_episodes:
                    break
                env.reset()
        world.emit("train_st", 0, start=global_step, executed=n, total_timesteps=total_timesteps, total_episodes=total_episodes)
        return R(step)
    return train_st


def run_uts(ctx, total, episodes_per_task, n_tasks=2):
    from rl_blox.algorithm import uniform_task_sampling as mod
    w = W.World()
    ts = TaskSetStub(w, n_tasks)

    class JR:
        def key(self, s):
            return ("key", s)

        def split(self, k, num=2):
            return [("split", k, i) for i in range(num)]

        def choice(self, k, n):
            return int(sym_int("task", 0, int(n) - 1))

    class J:
        random = JR()
    with overlay(mod, jax=J(), tqdm=lambda *a, **k: W.Bar()):
        res = mod.train_uts(ts, train_st_contract(w), total_timesteps=total, episodes_per_task=episodes_per_task, seed=0, progress_bar=False)
    return w, ts, res


def run_smt(ctx, b1, b2, interval, n_tasks=2, K=1):
    from rl_blox.algorithm import smt as mod
    w = W.World()
    ts = TaskSetStub(w, n_tasks)
    buf = MTBufferStub(w)

    class Rng:
        def choice(self, n, size=None, replace=False):
            # arbitrary K distinct task ids
            first = int(sym_int("pool0", 0, int(n) - 1))
            return np.asarray([first] if size == 1 else [first] + [t for t in range(int(n)) if t != first][: size - 1])

    class NpShim:
        class random:
            @staticmethod
            def default_rng(seed):
                return Rng()

        def __getattr__(self, k):
            return getattr(np, k)
    with overlay(mod, np=NpShim(), tqdm=lambda *a, **k: W.Bar()):
        res = mod.train_smt(ts, train_st_contract(w), buf, b1=b1, b2=b2, solved_threshold=sym_real("solved_threshold"), unsolvable_threshold=sym_real("unsolvable_threshold"),
                            scheduling_interval=interval, kappa=0.8, K=K, n_average=2, learning_starts=0, seed=0, logger=None, progress_bar=False)
    return w, ts, buf, res


# ------------------------------------------------------------------------------------------------ on-policy collectors
def run_reinforce_collect(ctx, which, K, start=0):
    """reinforce.sample_trajectories with the real EpisodeDataset; K = total_steps."""
    from rl_blox.algorithm import reinforce as mod
    w = W.World()
    env = W.RecEnv(w, discrete=False, max_steps=K + 6)
    env.force_end_at = K + 3
    policy = StubPolicy("policy", w, env)
    train_after_episode = bool(sym_bool("train_after_episode"))
    with overlay(mod, nnx=W.NnxShim(w, env), jax=W.JaxShim(False)):
        ds = mod.sample_trajectories(env, policy, ("key", 0), None, train_after_episode, K)
    tr = Trace("reinforce", w, env, None, {"train_after_episode": train_after_episode, "total_steps": K}, ds, None, 0, K)
    # stored rows
    rows = [r for ep in ds.episodes for r in ep]
    ctx.check(len(rows) == env.n_steps, "one-stored-transition-per-executed-step")
    for (o, a, no, r), st in zip(rows, env.steps):
        ctx.check(W.tagval(o) == W.tagval(st["obs"]), "stored-observation-is-the-one-the-environment-last-returned(reset-obs-after-episode-end)")
        ctx.check(W.tagval(a) == W.tagval(st["action"]), "stored-action-is-the-action-passed-to-the-environment")
        ctx.check(W.tagval(no) == W.tagval(st["next_obs"]), "stored-successor-is-that-step's-observation")
        ctx.check(r == st["reward"], "stored-reward-is-that-step's-reward")
    # episode records: an episode record ends exactly at an episode end
    k = 0
    for ep in ds.episodes:
        for j, _ in enumerate(ep):
            st = env.steps[k]
            ended = W.b_or(st["terminated"], st["truncated"])
            ctx.check(ended if j == len(ep) - 1 else W.b_not(ended), "episode-records-split-exactly-at-episode-ends")
            k += 1
    check_policy_sees_current_obs(ctx, tr, "policy_sample", lambda p: p["obs"])
    # documented stopping rule: after the first episode (train_after_episode) or at the first episode end with >= total_steps samples
    last = env.steps[-1]
    ctx.check(W.b_or(last["terminated"], last["truncated"]), "collection-stops-at-an-episode-end")
    if not train_after_episode:
        n_before_last_ep = env.n_steps - len(ds.episodes[-1])
        ctx.check(n_before_last_ep < K and env.n_steps >= K, "collects-at-least-total_steps-and-stops-at-the-first-episode-end-after")
    else:
        ctx.check(len(ds.episodes) == 1, "train_after_episode-collects-exactly-one-episode")
    return tr


class VecEnvStub:
    """2-environment vector env: fresh per-env observation tags, symbolic rewards / flags per env."""

    def __init__(self, world, n=2):
        self.w, self.num_envs, self.n_steps = world, n, 0
        self.steps = []
        self.cur = np.asarray([[100.0 + e] for e in range(n)], dtype=np.float32)

    def step(self, action):
        self.n_steps += 1
        k = self.n_steps
        nobs = np.asarray([[1000.0 * (e + 1) + k] for e in range(self.num_envs)], dtype=np.float32)
        from e2_pysym.npshim import SymArr
        rew = SymArr(np.asarray([sym_real(f"r{k}_{e}") for e in range(self.num_envs)], dtype=object))
        term = SymArr(np.asarray([sym_bool(f"term{k}_{e}") for e in range(self.num_envs)], dtype=object))
        trunc = SymArr(np.asarray([sym_bool(f"trunc{k}_{e}") for e in range(self.num_envs)], dtype=object))
        self.steps.append({"obs": self.cur, "action": action, "next_obs": nobs, "reward": rew, "terminated": term, "truncated": trunc})
        self.cur = nobs
        return nobs, rew, term, trunc, {}


def run_a2c_collect(ctx, which, K, start=0):
    from rl_blox.algorithm import a2c as mod
    w = W.World()
    env = VecEnvStub(w)
    adds = []

    class RB:
        def __init__(self, buffer_size, keys, dtypes):
            self.keys = keys

        def add_sample(self, **kw):
            adds.append(kw)

    class Pol:
        n = 0

        def sample(self, obs, key):
            Pol.n += 1
            a = np.asarray([[3000.0 + Pol.n], [4000.0 + Pol.n]], dtype=np.float32)
            w.emit("policy_sample", env.n_steps, obs=obs, key=key, action=a)
            return a
    with overlay(mod, ReplayBuffer=RB, jax=W.JaxShim(False)):
        buf, last_obs, gstep, rets = mod.collect_trajectories(env, Pol(), ("key", 0), env.cur, K, None, start)
    ctx.check(len(adds) == K and env.n_steps == K, "one-rollout-row-per-executed-step")
    for a, st in zip(adds, env.steps):
        ctx.check(bool(np.array_equal(np.asarray(a["obs"]), st["obs"])), "stored-observation-is-the-one-the-environment-last-returned(reset-obs-after-episode-end)")
        ctx.check(bool(np.array_equal(np.asarray(a["actions"]), np.asarray(st["action"]))), "stored-action-is-the-action-passed-to-the-environment")
        for e in range(env.num_envs):
            ctx.check(a["rewards"][e] == st["reward"][e], "stored-reward-is-that-step's-reward")
            ctx.check(a["terminations"][e] == st["terminated"][e], "stored-termination-flag-is-that-step's-flag")
            ctx.check(a["truncations"][e] == st["truncated"][e], "stored-truncation-flag-is-that-step's-flag")
    for (_, at, p) in w.of("policy_sample"):
        ctx.check(bool(np.array_equal(np.asarray(p["obs"]), env.steps[at]["obs"])), "acting-policy-is-conditioned-on-the-current-observation")
    ctx.check(bool(np.array_equal(np.asarray(last_obs), env.cur)), "returned-last-observation-is-the-environment's-current-observation")
    ctx.check(gstep == start + K * env.num_envs, "reported-step-count=start+executed(all environments)")
    return Trace("a2c", w, env, None, {}, None, gstep, start, K)


RUNNERS["reinforce"] = run_reinforce_collect
RUNNERS["a2c"] = run_a2c_collect
EXTRA_C01.append(("reinforce", "reinforce.sample_trajectories"))
EXTRA_C01.append(("a2c", "a2c.collect_trajectories"))


def run_active_mt(ctx, total, interval, n_tasks=2):
    from rl_blox.algorithm import active_mt as mod
    from rl_blox.blox.multitask import RoundRobinSelector
    w = W.World()
    ts = TaskSetStub(w, n_tasks)
    buf = MTBufferStub(w)
    sel = RoundRobinSelector(np.arange(n_tasks))
    with overlay(mod, tqdm=lambda *a, **k: W.Bar()):
        res = mod.train_active_mt(ts, train_st_contract(w), buf, 1.0, task_selector=sel, total_timesteps=total, scheduling_interval=interval, learning_starts=0, seed=0, logger=None, progress_bar=False)
    return w, ts, buf, res


def run_a2c_train(ctx, which, K, start=0):
    """train_a2c with the real collect_trajectories: rows stay faithful ACROSS rollouts (last observation threaded through)."""
    from rl_blox.algorithm import a2c as mod
    w = W.World()
    env = VecEnvStub(w)
    env.single_action_space = W.gym.spaces.Box(-1, 1, (1,))

    def reset(seed=None, options=None):
        return env.cur, {}
    env.reset = reset
    buffers = []

    class RB:
        def __init__(self, buffer_size, keys, dtypes):
            self.keys, self.rows = keys, []
            if "obs" in keys:
                buffers.append(self)

        def add_sample(self, **kw):
            self.rows.append(kw)

        def __len__(self):
            return len(self.rows)

    class Pol:
        n = 0

        def sample(self, obs, key):
            Pol.n += 1
            a = np.asarray([[3000.0 + Pol.n], [4000.0 + Pol.n]], dtype=np.float32)
            w.emit("policy_sample", env.n_steps, obs=obs, key=key, action=a)
            return a
    steps_per_update = 2
    n_rollouts = K
    prep = []

    def prepare(rb, vf, last_obs, space, gamma, lmbda):
        prep.append((rb, last_obs, env.n_steps))
        return (0, 0, 0, 0)
    with overlay(mod, ReplayBuffer=RB, jax=W.JaxShim(False), jnp=type("J", (), {"array": staticmethod(lambda x: x)}), prepare_a2c_batch=prepare,
                 train_policy_a2c=lambda *a, **k: 0.0, train_value_function=lambda *a, **k: 0.0, tqdm=lambda *a, **k: W.Bar()):
        mod.train_a2c(env, Pol(), W.StubModule("popt"), W.StubModule("vf"), W.StubModule("vopt"), total_timesteps=n_rollouts * steps_per_update * env.num_envs,
                      steps_per_update=steps_per_update, seed=0, logger=None, log_frequency=None, progress_bar=False)
    rows = [r for b in buffers for r in b.rows]
    ctx.check(len(rows) == env.n_steps and len(buffers) == n_rollouts, "one-rollout-row-per-executed-step")
    for a, st in zip(rows, env.steps):
        ctx.check(bool(np.array_equal(np.asarray(a["obs"]), st["obs"])), "stored-observation-is-the-one-the-environment-last-returned(reset-obs-after-episode-end)")
        ctx.check(bool(np.array_equal(np.asarray(a["actions"]), np.asarray(st["action"]))), "stored-action-is-the-action-passed-to-the-environment")
    for (_, at, p) in w.of("policy_sample"):
        ctx.check(bool(np.array_equal(np.asarray(p["obs"]), env.steps[at]["obs"])), "acting-policy-is-conditioned-on-the-current-observation")
    for (rb, last_obs, at) in prep:
        ctx.check(bool(np.array_equal(np.asarray(last_obs), env.steps[at - 1]["next_obs"])), "bootstrap-observation-is-the-environment's-current-observation")
    return Trace("a2c_train", w, env, None, {}, None, None, 0, K)


RUNNERS["a2c_train"] = run_a2c_train
EXTRA_C01.append(("a2c_train", "a2c.train_a2c"))
