"""Driver: python -m props.run <ID> [--tier quick|thorough] [--replay file]"""
import argparse
import importlib
import os
import sys
import traceback


def main():
    ap = argparse.ArgumentParser()
    ap.add_argument("prop")
    ap.add_argument("--tier", default=os.environ.get("VERIF_TIER", "quick"))
    ap.add_argument("--replay", default=None)
    a = ap.parse_args()
    seed = int(os.environ.get("VERIF_SEED", "0") or 0)
    if os.environ.get("VERIF_REPO"):
        import rl_blox
        print(f"[experiment] analysing {os.path.dirname(rl_blox.__file__)} instead of /repo")
    mod = importlib.import_module(f"props.{a.prop}")
    if a.replay:
        sys.exit(mod.replay(a.replay))
    try:
        rc = mod.main(a.tier, seed)
    except Exception:
        traceback.print_exc()
        print(f"INCONCLUSIVE property={a.prop} harness error")
        rc = 2
    sys.exit(rc)


if __name__ == "__main__":
    main()
