"""C07 Return and advantage estimates obey their recurrences and are causal (E1)."""
from __future__ import annotations

import ast
import inspect
import textwrap
import types
from fractions import Fraction

import jax
import jax.numpy as jnp
import numpy as np
import z3

from props.common import E1, tier_params
from symcore import sarray as S
from symcore import values as V
from symcore.evidence import Report
from symcore.solver import Session

PROP = "C07"


def flags01(sa):
    return [(sa.eq(0) | sa.eq(1))]


def gae_ref(r, v, nv, term, gamma, lam):
    T = len(r.flat())
    adv = [None] * T
    nxt = Fraction(0)
    for t in range(T - 1, -1, -1):
        delta = r[t] + gamma * nv[t] * (1 - term[t]) - v[t]
        nxt = delta + gamma * lam * (1 - term[t]) * nxt
        adv[t] = nxt if isinstance(nxt, S.SA) else S.SA(nxt)
    return S.stack(adv)


def main(tier, seed):
    from rl_blox.algorithm import a2c, ppo, reinforce
    from rl_blox.blox import gae, return_estimates
    from rl_blox.blox.function_approximator.mlp import MLP
    from flax import nnx

    tp = tier_params(tier)
    rep = Report(PROP, tier, seed)
    sess = Session(tp["timeout"])
    sess.keep_smt2 = tier == "thorough"
    Ts = [1, 3, 4] if tier == "quick" else [1, 2, 3, 4, 5, 6]
    Hs = [1, 3] if tier == "quick" else [1, 2, 3, 4, 5]
    rep.bounds = {"gae_T": Ts, "n_step_batch": 2, "n_step_horizon": Hs, "a2c": "T<=3 steps x 2-3 envs, obs dim 2, value MLP hidden [2]",
                  "ppo": "T=3 steps x 2 envs", "reward_to_go_len": "0..5", "gamma,lambda": "symbolic reals in [0,1]"}
    rep.assumptions = ["real-number semantics (float rounding outside the claim)", "termination flags take values in {0,1}",
                       "A2C/PPO value networks: tiny real rl_blox MLPs with symbolic parameters; equalities hold for every parameter value",
                       "PPO: np.asarray(action) inside collect_trajectories replaced by identity so that the real function can be traced; "
                       "vector env = stub returning the symbolic arrays; the compute_gae call is extracted from update_ppo's current source"]

    # ------------------------------------------------------------ compute_gae
    for T in Ts:
        r0 = jnp.arange(T, dtype=jnp.float32) + 1
        ex = (r0, r0 * 0.5, r0 * 0.25, jnp.zeros(T), 0.9, 0.8)
        val = [ex, (r0, -r0, r0 * 2, jnp.zeros(T).at[T // 2].set(1.0), 0.5, 0.3)]
        e = E1(rep, sess, lambda r, v, nv, t, g, l: tuple(gae.compute_gae(r, v, nv, t, g, l)), ex, f"compute_gae[T={T}]", validate_sets=val)
        r, v, nv, tm, g, l = (S.SA(x) for x in e.ins)
        e.add_hyp(*flags01(tm), g >= 0, g <= 1, l >= 0, l <= 1)
        e.check_reachable()
        e.obligation("advantage-recurrence", lambda i, o: S.close(S.SA(o[0]), gae_ref(*(S.SA(x) for x in i))))
        e.obligation("returns=advantages+values", lambda i, o: S.close(S.SA(o[1]), S.SA(o[0]) + S.SA(i[1])))
        # causality: adv[t] depends only on data in [t, first termination >= t]
        for t in range(T):
            for tau in list(range(t, T)) + [None]:
                last = T - 1 if tau is None else tau

                def vary(ins, t=t, last=last):
                    m = np.ones(T, dtype=bool)
                    m[t:last + 1] = False
                    return (m, m, m, m, None, None)
                hy = (lambda iA, iB: []) if tau is None else (lambda iA, iB, tau=tau: [S.SA(iA[3])[tau].eq(1)])
                e.noninterference(f"causal[t={t},first-termination={tau}]", vary, lambda i, o, t=t: S.SA(o[0])[t], hyps_fn=hy)

    # ------------------------------------------------------------ n-step return
    for H in Hs:
        B = 2
        rw0 = jnp.array(np.random.default_rng(seed).normal(size=(B, H)), dtype=jnp.float32)
        tm0 = jnp.zeros((B, H)).at[0, H - 1].set(1.0)
        e = E1(rep, sess, return_estimates.discounted_n_step_return, (rw0, tm0, 0.9), f"discounted_n_step_return[H={H}]",
               validate_sets=[(rw0, tm0, 0.9), (rw0 * 2, tm0.at[1, 0].set(1.0), 0.5)])
        rw, tm, g = (S.SA(x) for x in e.ins)
        e.add_hyp(*flags01(tm), g >= 0, g <= 1)
        e.check_reachable()

        def ref(i):
            rw, tm, g = (S.SA(x) for x in i)
            rets, discs = [], []
            for b in range(B):
                ret, d = S.SA(Fraction(0)), S.SA(Fraction(1))
                for t in range(H):
                    ret = ret + d * rw[b, t]
                    d = d * g * (1 - tm[b, t])
                rets.append(ret)
                discs.append(d)
            return S.stack(rets), S.stack(discs)
        e.obligation("n-step-recurrence", lambda i, o: S.close(S.SA(o[0]), ref(i)[0]))
        e.obligation("residual-discount=gamma^n*prod(1-term)", lambda i, o: S.close(S.SA(o[1]), ref(i)[1]))
        for b in range(B):
            def vary_rows(ins, b=b):
                m = np.ones((B, H), dtype=bool)
                m[b] = False
                return (m, m, None)
            e.noninterference(f"row{b}-independent-of-other-rows", vary_rows, lambda i, o, b=b: S.stack([S.SA(o[0])[b], S.SA(o[1])[b]]))
            for tau in range(H - 1):
                def vary_post(ins, b=b, tau=tau):
                    m = np.zeros((B, H), dtype=bool)
                    m[b, tau + 1:] = True
                    return (m, m, None)
                e.noninterference(f"row{b}-ignores-steps-after-termination-at-{tau}", vary_post,
                                  lambda i, o, b=b: S.stack([S.SA(o[0])[b], S.SA(o[1])[b]]),
                                  hyps_fn=lambda iA, iB, b=b, tau=tau: [S.SA(iA[1])[b, tau].eq(1)])

    # ------------------------------------------------------------ reward-to-go (eager python on symbolic reals)
    for n in range(0, 6 if tier == "quick" else 8):
        rs = [z3.Real(f"rtg_r{i}") for i in range(n)]
        g = z3.Real("rtg_gamma")
        try:
            out = reinforce.discounted_reward_to_go(list(rs), g)
        except Exception as ex:  # the code no longer runs on plain z3 reals (e.g. vectorised numpy): left to the E2 run below
            rep.inconclusive_(f"discounted_reward_to_go[n={n}]", f"not executable on z3 reals: {type(ex).__name__}")
            continue
        if len(out) != n:
            rep.violation("discounted_reward_to_go:length", f"length {len(out)} != {n}", {"n": n})
            continue
        goals = []
        for t in range(n):
            nxt = out[t + 1] if t + 1 < n else 0
            goals.append(out[t] == rs[t] + g * nxt)
        q = sess.prove(f"discounted_reward_to_go[n={n}]:recurrence", [], z3.And(*goals) if goals else True)
        if q.verdict == "sat":
            vals = [float(V.norm_conc(0)) for _ in rs]
            m = q.model
            from symcore.solver import model_value
            rv = [float(model_value(m, x)) for x in rs]
            gv = float(model_value(m, g))
            real = reinforce.discounted_reward_to_go(rv, gv)
            refv = []
            acc = 0.0
            for x in reversed(rv):
                acc = x + gv * acc
                refv.append(acc)
            refv = refv[::-1]
            rep.replayed += 1
            if not np.allclose(real, refv, rtol=1e-9, atol=1e-12):
                rep.violation("discounted_reward_to_go:recurrence", "recurrence G_t = r_t + gamma G_{t+1} fails", {"rewards": rv, "gamma": gv})
            else:
                rep.inconclusive_("discounted_reward_to_go", "model did not reproduce")
        elif q.verdict == "unknown":
            rep.inconclusive_("discounted_reward_to_go", "unknown")
    rep.functions.append({"site": "discounted_reward_to_go", "mode": "real code object executed on z3 reals (no control flow on values)"})
    _reward_to_go_integer_rewards(rep, tier, seed)

    # ------------------------------------------------------------ A2C batch preparation
    import gymnasium as gym
    for (T, N) in ([(2, 2), (3, 2)] if tier == "quick" else [(2, 2), (3, 2), (3, 3), (4, 2)]):
        D = 2
        vf = MLP(D, 1, [2], "relu", nnx.Rngs(seed))
        gdef, st = nnx.split(vf)

        def a2c_fn(state, obs, actions, rewards, terms, last_obs, gamma, lmbda, gdef=gdef):
            vfn = nnx.merge(gdef, state)
            buf = types.SimpleNamespace(buffer={"obs": obs, "actions": actions, "rewards": rewards, "terminations": terms})
            out = a2c.prepare_a2c_batch(buf, vfn, last_obs, gym.spaces.Box(-1, 1, (1,)), gamma, lmbda)
            # the documented bootstrap V(last_observation), traced next to the real routine (same terms -> same ASTs)
            return tuple(out) + (vfn(last_obs).reshape(-1),)
        rng = np.random.default_rng(seed)
        ex = (st, jnp.array(rng.normal(size=(T, N, D)), dtype=jnp.float32), jnp.zeros((T, N, 1)), jnp.array(rng.normal(size=(T, N)), dtype=jnp.float32),
              jnp.zeros((T, N)), jnp.array(rng.normal(size=(N, D)), dtype=jnp.float32), 0.9, 0.8)
        e = E1(rep, sess, a2c_fn, ex, f"prepare_a2c_batch[T={T},N={N}]", validate_sets=[ex])
        tm = S.SA(e.ins[4])
        e.add_hyp(*flags01(tm))
        for env in range(N):
            def vary(ins, env=env):
                mo = np.ones((T, N, D), dtype=bool); mo[:, env] = False
                ma = np.ones((T, N, 1), dtype=bool); ma[:, env] = False
                m2 = np.ones((T, N), dtype=bool); m2[:, env] = False
                ml = np.ones((N, D), dtype=bool); ml[env] = False
                return (jax.tree_util.tree_map(lambda x: None, ins[0]), mo, ma, m2, m2, ml, None, None)
            sel = lambda i, o, env=env: S.stack([S.SA(o[2]).reshape(T, N)[:, env], S.SA(o[3]).reshape(T, N)[:, env]])
            e.noninterference(f"env{env}-advantages-independent-of-other-envs", vary, sel)
        # bootstrap uses last_observation[e]; recurrence per env with values from the same value function
        def a2c_ref(i, o):
            st_, obs, act, rw, tm, last, g, l = i
            goals = []
            adv = S.SA(o[2]).reshape(T, N)
            ret = S.SA(o[3]).reshape(T, N)
            # recover values: returns - advantages
            vals = ret - adv
            for env in range(N):
                # next values: values[t+1] within rollout; the final one is only constrained through last_observation (checked by two-copy below)
                for t in range(T - 1):
                    lhs = adv[t, env]
                    delta = S.SA(rw)[t, env] + S.SA(g) * vals[t + 1, env] * (1 - S.SA(tm)[t, env]) - vals[t, env]
                    goals.append(S.close(lhs, delta + S.SA(g) * S.SA(l) * (1 - S.SA(tm)[t, env]) * adv[t + 1, env]))
            return goals
        e.obligation("per-env-gae-recurrence", a2c_ref)

        def a2c_last(i, o):
            st_, obs, act, rw, tm, last, g, l = i
            adv = S.SA(o[2]).reshape(T, N)
            vals = S.SA(o[3]).reshape(T, N) - adv
            vlast = S.SA(o[-1]).reshape(N)
            return [S.close(adv[T - 1, env], S.SA(rw)[T - 1, env] + S.SA(g) * vlast[env] * (1 - S.SA(tm)[T - 1, env]) - vals[T - 1, env]) for env in range(N)]
        e.obligation("last-step-bootstraps-from-V(last_observation)", a2c_last, site="a2c.prepare_a2c_batch:last-step-bootstraps-from-V(last_observation)")
        for env in range(N):
            def vary_last(ins, env=env):
                ml = np.zeros((N, D), dtype=bool); ml[env] = True
                return (jax.tree_util.tree_map(lambda x: None, ins[0]), None, None, None, None, ml, None, None)
            others = [k for k in range(N) if k != env]
            e.noninterference(f"last_observation[{env}]-only-bootstraps-env{env}", vary_last,
                              lambda i, o, others=others: S.SA(o[2]).reshape(T, N)[:, others])

    # ------------------------------------------------------------ learning signals from sampled subtrajectories (MR.Q)
    _subtrajectory_signals(rep, sess, tier, seed)

    # ------------------------------------------------------------ PPO: layout of collect_trajectories fed to update_ppo's compute_gae call
    _ppo(rep, sess, tier, seed)

    if tier == "thorough":
        bad = sess.cross_check()
        rep.extra["cvc5_disagreements"] = bad
        if bad:
            rep.inconclusive_("cross-check", f"{bad} z3/cvc5 disagreements")
    rep.add_queries(sess)
    rep.samples = [o["name"] for o in rep.obligations if o["kind"] == "obligation"][:12]
    return rep.finish()


def _reward_to_go_integer_rewards(rep, tier, seed):
    """'For all reward sequences' includes integer-typed rewards (many environments return Python ints): E2 run of the
    real function with integer-valued symbolic rewards and a real discount; numpy's dtype rules are kept by the
    allocation shim (an array allocated 'like' integer data truncates what is written into it)."""
    from e2_pysym.core import sym_int, sym_real
    from e2_pysym.npshim import NpShim
    from props.e2common import E2Report, overlay
    from rl_blox.algorithm import reinforce
    e2 = E2Report(PROP, tier, seed)
    e2.r = rep

    def prog(ctx):
        n = 3
        with overlay(reinforce, np=NpShim(typed=True)):
            rs = [sym_int(f"ri{i}", -3, 3) for i in range(n)]
            g = sym_real("gamma_i", 0, 1)
            out = reinforce.discounted_reward_to_go(list(rs), g)
        ctx.check(len(out) == n, "reward-to-go:one-return-per-step")
        for t in range(n):
            nxt = out[t + 1] if t + 1 < n else 0
            ctx.check(out[t] == rs[t] + g * nxt, "reward-to-go:recurrence-holds-for-integer-typed-rewards")
    e2.run("discounted_reward_to_go[integer-typed rewards]", prog, fn="rl_blox.algorithm.reinforce.discounted_reward_to_go",
           site_of=lambda label: f"discounted_reward_to_go:{label}")


def _subtrajectory_signals(rep, sess, tier, seed):
    """MR.Q critic target and encoder loss: nothing after the first terminated step of a sampled subtrajectory
    matters.  Mode P (forward passes generalised to fresh reals: holds for every network and observation) gives the
    proof; a sat/unknown there is turned into a replayable two-copy counterexample with seeded networks (mode C)."""
    from flax import nnx
    from props import C03 as L3
    from props.common import generalise, z3_vars_of
    from props.lossframe import _mk

    B = 2
    for C, timed, final, H in ((L3.EncoderLoss, ("done{t}", "zs{t}", "ce{t}", "rew{t}"), (), L3.H_ENC), (L3.MRQ, (), ("qt1_next", "qt2_next"), L3.H_MRQ)):
        case = C()
        gdef, st, data = _mk(case, B, seed)
        f = case.fn(gdef)
        ex = (st,) + tuple(data)
        site = f"{case.site}:causal"

        def post(ins, outs):
            gen, fresh, _ = generalise(outs[0], outs[1])
            return (gen, fresh)
        e = E1(rep, sess, f, ex, f"{case.site}[B={B},mode=P]:subtrajectory", post=post, soft=True, validate_sets=[ex])
        d = e.ins[1:]
        e.add_hyp(*case.hyps(d))
        e.check_reachable()
        gen_out, fresh = e.outs
        r_, term_ = np.asarray(d[2], dtype=object), np.asarray(d[case.term_index], dtype=object)
        settled = True
        for b in range(B):
            for k in range(H - 1):
                later = []  # every symbol that belongs to row b after step k
                for t in range(k + 1, H):
                    later += [r_[b, t], term_[b, t]]
                    for nm in timed:
                        later += list(np.asarray(np.asarray(fresh[nm.format(t=t)], dtype=object)[b], dtype=object).reshape(-1))
                    if "target_zs" in fresh:
                        later += list(np.asarray(np.asarray(fresh["target_zs"], dtype=object)[b, t], dtype=object).reshape(-1))
                for nm in final:
                    later += list(np.asarray(np.asarray(fresh[nm], dtype=object)[b], dtype=object).reshape(-1))
                pairs = [(v, z3.Real(str(v) + "_alt")) for v in later if isinstance(v, z3.ExprRef)]
                goals = True
                for leaf in jax.tree_util.tree_leaves(gen_out):
                    for el in np.asarray(leaf, dtype=object).reshape(-1):
                        if isinstance(el, z3.ExprRef):
                            goals = V.s_and(goals, V.s_cmp("eq", el, z3.substitute(el, *pairs)))
                alt_hyps = [z3.substitute(h, *pairs) for h in e.hyps]
                q = sess.prove(f"{site}:row{b}-terminated-at-{k}-ignores-everything-later(2-copy)", e.hyps + alt_hyps + [V.to_z3(S.SA(term_[b, k]).eq(1).all())], goals)
                if q.verdict != "unsat":
                    settled = False
        if settled:
            continue
        # mode C: seeded networks / observations; replayable two-copy counterexample.  Two easy families of queries
        # instead of one hard one: (i) only the later flags are symbolic and vary (rewards at their seeded values),
        # (ii) only the later rewards are symbolic and vary (flags concrete: terminated at k, later flags 0).
        r_conc, t_conc = np.asarray(data[2], dtype=np.float32), np.asarray(data[case.term_index], dtype=np.float32)
        found = False
        for b in range(B):
            for k in range(H - 1):
                for what in ("flags", "rewards"):
                    tc = t_conc.copy()
                    tc[b, k] = 1.0
                    tc[b, k + 1:] = 0.0

                    def overrides(ins, st=st, data=data, case=case, what=what, tc=tc):
                        ins = list(ins)
                        ins[0] = st
                        for kk in case.concrete_in_C:
                            ins[1 + kk] = data[kk]
                        if what == "flags":
                            ins[1 + 2] = jnp.asarray(r_conc)
                        else:
                            ins[1 + case.term_index] = jnp.asarray(tc)
                        for kk in range(len(data)):  # scalar weights / discounts at their seeded values
                            if np.ndim(data[kk]) == 0:
                                ins[1 + kk] = data[kk]
                        return tuple(ins)
                    ec = E1(rep, sess, lambda *a, f=f: f(*a)[0], ex, f"{case.site}[B={B},mode=C,seed={seed},symbolic-{what},row{b},k={k}]:subtrajectory",
                            overrides=overrides, soft=True, numeric_consts=True)
                    ec.add_hyp(*case.hyps(ec.ins[1:]))

                    def vary(ins, b=b, k=k, what=what):
                        m = [None] * len(ins)
                        ix = 1 + (case.term_index if what == "flags" else 2)
                        a_ = np.zeros(np.shape(ins[ix]), dtype=bool)
                        a_[b, k + 1:] = True
                        m[ix] = a_
                        m[0] = jax.tree_util.tree_map(lambda x: None, ins[0])
                        return tuple(m)

                    def hyps_fn(iA, iB, b=b, k=k, what=what):
                        hs = [h for h in case.hyps(iB[1:])]
                        if what == "flags":
                            hs.append(S.SA(iA[1 + case.term_index])[b, k].eq(1))
                        return hs
                    r = ec.noninterference(f"terminated-at-{k}-ignores-later-{what}", vary,
                                           lambda i, o: S.stack([S.SA(x).reshape(-1)[0] for x in jax.tree_util.tree_leaves(o) if np.asarray(x).size == 1]),
                                           hyps_fn=hyps_fn, site=f"{case.site}:nothing-after-the-first-terminated-step-matters")
                    if r is False:
                        found = True
                        break
                if found:
                    break
            if found:
                break
        if not found:
            rep.inconclusive_(site, "mode P did not prove causality and mode C found no replayable counterexample")


def _advantage_prefix_of_update_ppo(ppo):
    """The statements of update_ppo (current source) that compute `advs, returns`, i.e. everything before the rollout
    log-probabilities are taken, compiled into a function with update_ppo's own signature."""
    fn = ppo.update_ppo
    while hasattr(fn, "fun") or hasattr(fn, "__wrapped__"):
        fn = getattr(fn, "fun", None) or fn.__wrapped__
    src = textwrap.dedent(inspect.getsource(fn))
    fdef = next(n for n in ast.walk(ast.parse(src)) if isinstance(n, ast.FunctionDef) and n.name == "update_ppo")
    body = [st for st in fdef.body if not (isinstance(st, ast.Expr) and isinstance(getattr(st, "value", None), ast.Constant))]
    keep = []
    for st in body:
        txt = ast.unparse(st)
        if "log_probability" in txt or "loss_grad_fn" in txt or isinstance(st, (ast.For, ast.Return)):
            break
        keep.append(st)
    assigned = {t.id for st in keep for n in ast.walk(st) if isinstance(n, (ast.Assign,)) for tt in n.targets for t in ast.walk(tt) if isinstance(t, ast.Name)}
    if not {"advs", "returns"} <= assigned:
        raise V.Unsupported("update_ppo no longer computes `advs, returns` before taking the rollout log-probabilities")
    new = ast.FunctionDef(name="_advantages", args=fdef.args, body=keep + [ast.parse("return advs, returns").body[0]], decorator_list=[], returns=None, type_params=[])
    mod = ast.Module(body=[new], type_ignores=[])
    ast.fix_missing_locations(mod)
    ns = dict(vars(ppo))
    exec(compile(mod, "<update_ppo: advantage computation>", "exec"), ns)
    return ns["_advantages"], inspect.signature(fn), "; ".join(ast.unparse(st) for st in keep)


def _ppo(rep, sess, tier, seed):
    """train_ppo -> collect_trajectories -> update_ppo: the advantages update_ppo computes for one environment do not
    depend on the other environments of the vectorised rollout.  The REAL train_ppo runs one iteration over a stub
    vector env (symbolic arrays); its update_ppo call is intercepted, bound to update_ppo's signature, and the
    advantage computation extracted from update_ppo's current source is executed on exactly those arguments."""
    from rl_blox.algorithm import ppo
    from rl_blox.blox.function_approximator.mlp import MLP
    from flax import nnx
    from props.e2common import overlay
    adv_fn, sig, text = _advantage_prefix_of_update_ppo(ppo)
    rep.extra["ppo_advantage_statements_in_source"] = text
    D = 2
    for (T, N) in ([(3, 2)] if tier == "quick" else [(3, 2), (2, 3), (4, 2)]):
        critic = MLP(D, 1, [2], "relu", nnx.Rngs(seed))
        gdef, st = nnx.split(critic)

        class NpShim:
            def __getattr__(self, k):
                return getattr(np, k)

            @staticmethod
            def asarray(x, *a, **k):
                return x

        class GymStub:
            """what train_ppo touches of gymnasium: the statistics wrapper (identity here) and the autoreset constant"""
            class vector:
                class AutoresetMode:
                    SAME_STEP = "same-step"
                VectorEnv = object

            class wrappers:
                class vector:
                    RecordEpisodeStatistics = staticmethod(lambda e: e)

        def fn(state, obs_seq, rewards, terms, gdef=gdef, T=T, N=N):
            crit = nnx.merge(gdef, state)

            class Envs:
                num_envs = N
                metadata = {"autoreset_mode": GymStub.vector.AutoresetMode.SAME_STEP}

                def __init__(self):
                    self.t = 0

                def reset(self, seed=None):
                    return obs_seq[0], {}

                def step(self, action):
                    t = self.t
                    self.t += 1
                    return obs_seq[t + 1], rewards[t], terms[t], jnp.zeros(N, dtype=bool), {}

            class Actor:
                def sample(self, obs, key):
                    return jnp.zeros((N, 1))
            got = {}

            def capture(*a, **k):
                ba = sig.bind(*a, **k)
                ba.apply_defaults()
                got["adv"] = adv_fn(*ba.args, **ba.kwargs)
                got["reward"] = ba.arguments["reward"]
                return jnp.zeros(())
            with overlay(ppo, np=NpShim(), gym=GymStub, update_ppo=capture, trange=lambda n, **k: range(n)):
                ppo.train_ppo(Envs(), Actor(), crit, None, None, iterations=1, epochs=1, batch_size=T, seed=0, logger=None, progress_bar=False)
            advs, rets = got["adv"]
            return advs, rets, got["reward"]
        rng = np.random.default_rng(seed)
        ex = (st, jnp.array(rng.normal(size=(T + 1, N, D)), dtype=jnp.float32), jnp.array(rng.normal(size=(T, N)), dtype=jnp.float32), jnp.zeros((T, N)))
        e = E1(rep, sess, fn, ex, f"ppo.train_ppo->collect_trajectories->update_ppo[T={T},N={N}]", validate_sets=[ex])
        e.add_hyp(*flags01(S.SA(e.ins[3])))
        # which flat position holds (env, t)?  derive from the returned reward layout (symbols are unique)
        flat_r = list(np.asarray(e.outs[2], dtype=object).reshape(-1))
        pos = {}
        ok = True
        for env in range(N):
            for t in range(T):
                sym = e.ins[2][t, env]
                hits = [k for k, x in enumerate(flat_r) if V.s_eq_struct(x, sym)]
                if len(hits) != 1:
                    ok = False
                else:
                    pos[(env, t)] = hits[0]
        if not ok:
            rep.inconclusive_(e.site, "cannot locate (env,t) in flattened rollout")
            continue
        for env in range(N):
            def vary(ins, env=env):
                mo = np.ones((T + 1, N, D), dtype=bool); mo[:, env] = False
                m2 = np.ones((T, N), dtype=bool); m2[:, env] = False
                return (jax.tree_util.tree_map(lambda x: None, ins[0]), mo, m2, m2)
            idx = [pos[(env, t)] for t in range(T)]
            e.noninterference(f"env{env}-advantages-independent-of-other-envs", vary, lambda i, o, idx=idx: S.SA(o[0]).reshape(-1)[idx],
                              site="ppo.update_ppo:gae-over-flattened-rollout-crosses-environment-boundary")



def replay(path):
    import json
    print(json.dumps(json.load(open(path)), indent=1))
    return main("quick", 0)
