"""C10 Actions sent to the environment respect the action-space bounds (E1)."""
from __future__ import annotations

from fractions import Fraction

import jax
import jax.numpy as jnp
import numpy as np
import z3
from flax import nnx

from props.common import E1, tier_params
from props.nets import FakeBox, FreeNet
from symcore import sarray as S
from symcore import values as V
from symcore.evidence import Report
from symcore.solver import Session

PROP = "C10"


def main(tier, seed):
    from rl_blox.algorithm import ddpg, td3
    from rl_blox.blox import cross_entropy_method as cem
    from rl_blox.blox.function_approximator.policy_head import DeterministicTanhPolicy
    import gymnasium as gym

    tp = tier_params(tier)
    rep = Report(PROP, tier, seed)
    sess = Session(tp["timeout"])
    sess.keep_smt2 = tier == "thorough"
    dims = [1, 2] if tier == "quick" else [1, 2, 3]
    rep.bounds = {"action_dims": dims, "cem": "population 2-3 x dims 1-2", "values": "all real network outputs, bounds low<high, noise levels >= 0, any key"}
    rep.assumptions = ["real-number semantics (rounding at the bound itself outside the claim, as the property allows)",
                       "tanh uninterpreted with |tanh|<=1 and monotonicity; sqrt with sqrt(x)^2=x, sqrt>=0",
                       "standard-normal / truncated-normal draws: arbitrary reals (resp. reals in [-2,2]) determined by the key",
                       "policy network = FreeNet (outputs are arbitrary reals); DeterministicTanhPolicy, samplers and CEM are the real code"]

    for d in dims:
        box = gym.spaces.Box(low=-np.arange(1, d + 1, dtype=np.float32), high=np.arange(1, d + 1, dtype=np.float32) * 2)
        pol = DeterministicTanhPolicy(FreeNet((1, d)), box)
        gdef, st = nnx.split(pol)
        low0, high0 = jnp.asarray(box.low), jnp.asarray(box.high)
        obs0 = jnp.zeros(3)
        key0 = jax.random.key(seed)

        def rel_hyps(low, high, scale, state):
            low, high, scale = S.SA(low), S.SA(high), S.SA(scale)
            leaves = jax.tree_util.tree_leaves_with_path(state)
            hy = [low < high, S.close(scale, (high - low) / 2)]
            for path, leaf in leaves:
                ps = jax.tree_util.keystr(path)
                if "action_scale" in ps:
                    hy.append(S.close(S.SA(leaf), (high - low) / 2))
                if "action_bias" in ps:
                    hy.append(S.close(S.SA(leaf), (high + low) / 2))
            return hy

        # ---- constructor relation: scale=(high-low)/2, bias=(high+low)/2
        def ctor(low, high):
            p = DeterministicTanhPolicy(FreeNet((1, d)), FakeBox(low, high))
            return p.action_scale.value, p.action_bias.value
        c = E1(rep, sess, ctor, (low0, high0), f"DeterministicTanhPolicy.__init__[d={d}]", validate_sets=[(low0, high0)])
        c.obligation("scale=(high-low)/2,bias=(high+low)/2",
                     lambda i, o: [S.close(S.SA(o[0]), (S.SA(i[1]) - S.SA(i[0])) / 2), S.close(S.SA(o[1]), (S.SA(i[1]) + S.SA(i[0])) / 2)])

        # make_sample_actions / make_sample_target_actions bind low, high, 0.5*(high-low), noise
        lo_s, hi_s = V.sym_reals("low", (d,)), V.sym_reals("high", (d,))
        for maker, extra, label in ((ddpg.make_sample_actions, (0.1,), "ddpg.make_sample_actions"),
                                    (td3.make_sample_target_actions, (0.2, 0.5), "td3.make_sample_target_actions")):
            class _ZBox:  # numpy object arrays of z3 reals: the real arithmetic of the maker runs on them
                low = np.array([x for x in lo_s], dtype=object)
                high = np.array([x for x in hi_s], dtype=object)
            jitted = maker(_ZBox, *extra)
            part = getattr(jitted, "fun", None) or getattr(jitted, "__wrapped__")
            args = part.args
            goals = [z3.And(*[args[0][k] == lo_s[k] for k in range(d)]), z3.And(*[args[1][k] == hi_s[k] for k in range(d)]),
                     z3.And(*[args[2][k] == (hi_s[k] - lo_s[k]) / 2 for k in range(d)])]
            q = sess.prove(f"{label}[d={d}]:binds-low,high,(high-low)/2", [], z3.And(*goals))
            if q.verdict != "unsat":
                rep.violation(f"{label}:bound-arguments", "sampler is not bound to (low, high, (high-low)/2)", {"args": [str(a) for a in args[:3]]})
            same = len(args[3:]) == len(extra)
            noise_goals = []
            for a_, e_ in zip(args[3:], extra):
                for x in np.asarray(a_, dtype=object).reshape(-1):
                    noise_goals.append(V.to_z3(V.s_cmp("eq", x if isinstance(x, z3.ExprRef) else V.norm_conc(x), V.norm_conc(e_))))
            qn = sess.prove(f"{label}[d={d}]:binds-the-configured-noise-level-and-noise-clip-unscaled", [z3.And(*[lo_s[k] < hi_s[k] for k in range(d)])], z3.And(*noise_goals) if noise_goals else True)
            if not same or qn.verdict != "unsat":
                # replay on a real Box: the bound partial's noise arguments must be exactly the configured scalars
                rb_ = gym.spaces.Box(low=np.full(d, -0.5, dtype=np.float32), high=np.full(d, 0.25, dtype=np.float32))
                real = maker(rb_, *extra)
                rargs = (getattr(real, "fun", None) or getattr(real, "__wrapped__")).args[3:]
                rep.replayed += 1
                if not all(np.allclose(np.asarray(a_, dtype=float), e_) for a_, e_ in zip(rargs, extra)) or len(rargs) != len(extra):
                    rep.violation(f"{label}:noise-arguments", f"noise parameters bound as {[np.asarray(a_).tolist() for a_ in rargs]} instead of {extra} (Box [-0.5,0.25]^{d})", {})
                else:
                    rep.inconclusive_(f"{label}:noise-arguments", "symbolic mismatch did not reproduce")
        rep.functions.append({"site": "make_sample_actions/make_sample_target_actions", "mode": "real code executed on numpy object arrays of z3 reals"})

        # ---- exploration sampler
        def explore(low, high, scale, noise, state, obs, key):
            p = nnx.merge(gdef, state)
            return ddpg.sample_actions(low, high, scale, noise, p, obs, key), p(obs)
        ex = (low0, high0, (high0 - low0) / 2, 0.3, st, obs0, key0)
        e = E1(rep, sess, explore, ex, f"ddpg.sample_actions[d={d}]", validate_sets=[ex])
        low, high, scale, sig, state, obs, key = e.ins
        e.add_hyp(*rel_hyps(low, high, scale, state), S.SA(sig) >= 0)
        e.check_reachable()
        e.obligation("within-bounds", lambda i, o: [S.le(S.SA(i[0]), S.SA(o[0])), S.le(S.SA(o[0]), S.SA(i[1]))])
        e.obligation("policy-action-within-bounds", lambda i, o: [S.le(S.SA(i[0]), S.SA(o[1])), S.le(S.SA(o[1]), S.SA(i[1]))])
        e.obligation("equals-clip(pi(o)+sigma*scale*n(key))",
                     lambda i, o, nz: S.close(S.SA(o[0]), S.clip(S.SA(o[1]) + S.SA(i[3]) * S.SA(i[2]) * nz.of("normal")[0], S.SA(i[0]), S.SA(i[1]))))

        # ---- target smoothing sampler
        def smooth(low, high, scale, noise, clipc, state, obs, key):
            p = nnx.merge(gdef, state)
            return td3.sample_target_actions(low, high, scale, noise, clipc, p, obs, key), p(obs)
        ex = (low0, high0, (high0 - low0) / 2, 0.2, 0.5, st, obs0, key0)
        e = E1(rep, sess, smooth, ex, f"td3.sample_target_actions[d={d}]", validate_sets=[ex])
        low, high, scale, sig, cc, state, obs, key = e.ins
        e.add_hyp(*rel_hyps(low, high, scale, state), S.SA(sig) >= 0, S.SA(cc) >= 0)
        e.check_reachable()
        e.obligation("within-bounds", lambda i, o: [S.le(S.SA(i[0]), S.SA(o[0])), S.le(S.SA(o[0]), S.SA(i[1]))])
        e.obligation("smoothing-noise<=noise_clip*half-range",
                     lambda i, o: S.le(abs(S.SA(o[0]) - S.SA(o[1])), S.SA(i[4]) * S.SA(i[2])))

        def smooth_eq(i, o, nz):
            low, high, scale, sig, cc = (S.SA(x) for x in i[:5])
            eps = sig * scale * nz.of("normal")[0]
            return S.close(S.SA(o[0]), S.clip(S.SA(o[1]) + S.clip(eps, -(scale * cc), scale * cc), low, high))
        e.obligation("equals-clip(pi(o)+clip(sigma*scale*n(key),+-c*scale))", smooth_eq)

        # ---- tanh scaling maps ANY network output into the box
        def scale_out(state, y):
            return nnx.merge(gdef, state).scale_output(y)
        for yshape in ((d,), (2, d)):
            ex = (st, jnp.full(yshape, 50.0))
            e = E1(rep, sess, scale_out, ex, f"DeterministicTanhPolicy.scale_output[y{yshape}]", validate_sets=[ex, (st, jnp.full(yshape, -0.3))])
            lo_v, hi_v = V.sym_reals("blow", (d,)), V.sym_reals("bhigh", (d,))
            state, y = e.ins
            hy = [S.SA(lo_v) < S.SA(hi_v)]
            for path, leaf in jax.tree_util.tree_leaves_with_path(state):
                ps = jax.tree_util.keystr(path)
                if "action_scale" in ps:
                    hy.append(S.close(S.SA(leaf), (S.SA(hi_v) - S.SA(lo_v)) / 2))
                if "action_bias" in ps:
                    hy.append(S.close(S.SA(leaf), (S.SA(hi_v) + S.SA(lo_v)) / 2))
            e.add_hyp(*hy)
            e.check_reachable()
            e.obligation("any-output-maps-into-[low,high]",
                         lambda i, o, lo_v=lo_v, hi_v=hi_v, yshape=yshape: [S.le(S.bcast(S.SA(lo_v), yshape), S.SA(o)), S.le(S.SA(o), S.bcast(S.SA(hi_v), yshape))])

    # ---- CEM candidates and mean stay inside the bounds
    for (npop, d) in ([(2, 1), (3, 2)] if tier == "quick" else [(2, 1), (3, 2), (4, 2), (3, 3)]):
        mean0 = jnp.zeros(d)
        var0 = jnp.ones(d) * 0.5
        lb0, ub0 = -jnp.ones(d), jnp.ones(d) * 2

        def samp(mean, var, key, lb, ub, npop=npop):
            return cem.cem_sample(mean, var, key, npop, lb, ub)
        ex = (mean0, var0, jax.random.key(seed), lb0, ub0)
        e = E1(rep, sess, samp, ex, f"cem_sample[pop={npop},d={d}]", validate_sets=[ex])
        mean, var, key, lb, ub = e.ins
        e.add_hyp(S.SA(lb) <= S.SA(mean), S.SA(mean) <= S.SA(ub), S.SA(var) >= 0)
        e.check_reachable()
        e.obligation("candidates-within-bounds",
                     lambda i, o, npop=npop, d=d: [S.le(S.bcast(S.SA(i[3]), (npop, d)), S.SA(o)), S.le(S.SA(o), S.bcast(S.SA(i[4]), (npop, d)))], split=False)

        def constrained_var(i, o, nz, npop=npop, d=d):
            mean, var, key, lb, ub = (S.SA(x) if not isinstance(x, np.ndarray) or x.dtype == object else x for x in i)
            t = nz.of("tnormal")[0]
            half_l, half_u = (mean - lb) / 2, (ub - mean) / 2
            cv = S.minimum(S.minimum(half_l * half_l, half_u * half_u), var)
            dev = S.SA(o) - S.bcast(mean, (npop, d))
            # deviation^2 = t^2 * constrained variance  (variance never exceeds (distance to bound / 2)^2)
            return [S.close(dev * dev, t * t * S.bcast(cv, (npop, d)))]
        e.obligation("deviation=t*sqrt(min(var,(dist/2)^2))", constrained_var)

        n_el = max(1, npop - 1)

        def upd(samples, fit, mean, var, alpha, n_el=n_el):
            return cem.cem_update(samples, fit, mean, var, n_el, alpha)
        s0 = jnp.array(np.random.default_rng(seed).uniform(-1, 2, size=(npop, d)), dtype=jnp.float32)
        f0 = jnp.array(np.random.default_rng(seed + 1).normal(size=npop), dtype=jnp.float32)
        ex = (s0, f0, mean0, var0, 0.25)
        e = E1(rep, sess, upd, ex, f"cem_update[pop={npop},elite={n_el},d={d}]", validate_sets=[ex])
        samples, fit, mean, var, alpha = e.ins
        lbv, ubv = V.sym_reals("lb", (d,)), V.sym_reals("ub", (d,))
        e.add_hyp(S.bcast(S.SA(lbv), (npop, d)) <= S.SA(samples), S.SA(samples) <= S.bcast(S.SA(ubv), (npop, d)),
                  S.SA(lbv) <= S.SA(mean), S.SA(mean) <= S.SA(ubv), S.SA(alpha) >= 0, S.SA(alpha) <= 1)
        e.check_reachable()
        e.obligation("updated-mean-within-bounds", lambda i, o, lbv=lbv, ubv=ubv: [S.le(S.SA(lbv), S.SA(o[0])), S.le(S.SA(o[0]), S.SA(ubv))])

    _pets_planner_bounds(rep, sess, tier, seed)
    _mpc_action(rep, sess, tier, seed)
    _provenance(rep, tier, seed)
    if tier == "thorough":
        bad = sess.cross_check()
        rep.extra["cvc5_disagreements"] = bad
        if bad:
            rep.inconclusive_("cross-check", f"{bad} z3/cvc5 disagreements")
    rep.add_queries(sess)
    rep.samples = [o["name"] for o in rep.obligations if o["kind"] == "obligation"][:12]
    return rep.finish()


def _pets_planner_bounds(rep, sess, tier, seed):
    """PETS: the CEM sampler built by _init_mpc_optimizer_cem only proposes plans whose (time step, action dimension)
    entries lie inside that dimension's own bounds."""
    from rl_blox.algorithm import pets
    H, n_samples = 2, 2
    for d in ([2] if tier == "quick" else [1, 2]):
        low0 = -jnp.arange(1, d + 1, dtype=jnp.float32)
        high0 = jnp.arange(1, d + 1, dtype=jnp.float32) * 3

        def planner_samples(low, high, mean, var, key):
            sample_fn, update_fn = pets._init_mpc_optimizer_cem(FakeBox(low, high), H, n_samples)
            return sample_fn(mean, var, key)
        ex = (low0, high0, jnp.zeros((H, d)), jnp.ones((H, d)) * 0.3, jax.random.key(seed))
        e = E1(rep, sess, planner_samples, ex, f"pets._init_mpc_optimizer_cem+cem_sample[H={H},d={d}]", validate_sets=[ex])
        low, high, mean, var, key = e.ins
        lo_b, hi_b = S.bcast(S.SA(low).reshape(1, d), (H, d)), S.bcast(S.SA(high).reshape(1, d), (H, d))
        e.add_hyp(S.SA(low) < S.SA(high), lo_b <= S.SA(mean), S.SA(mean) <= hi_b, S.SA(var) >= 0)
        e.check_reachable()
        e.obligation("planner-candidates-within-each-dimension's-own-bounds",
                     lambda i, o, d=d: S.le(S.bcast(S.SA(i[0]).reshape(1, 1, d), (n_samples, H, d)), S.SA(o)) & S.le(S.SA(o), S.bcast(S.SA(i[1]).reshape(1, 1, d), (n_samples, H, d))),
                     split=True, site="pets._init_mpc_optimizer_cem:candidates-within-action-bounds")


def _mpc_action(rep, sess, tier, seed):
    from rl_blox.algorithm import pets
    H, d = 2, 2

    def f(low, high, plan_opt, prev_plan, key):
        box = FakeBox(low, high)
        cfg = pets.PETSMPCConfig(plan_horizon=H, n_particles=1, n_samples=1, n_opt_iter=1, init_with_previous_plan=True, reward_model=None, action_space_shape=(d,),
                                 avg_act=0.5 * (high + low), init_var=jnp.ones((H, d)), sample_fn=None, update_fn=None)
        st = pets.PETSMPCState(dynamics_model=None, prev_plan=prev_plan, key=key)
        seen = {}

        def opt(model, plan, k, obs):
            seen["start"] = plan
            return plan_opt
        a = pets.mpc_action(cfg, st, opt, jnp.zeros(3))
        return a, st.prev_plan, seen["start"]
    low0, high0 = jnp.asarray([1.0, 0.5]), jnp.asarray([3.0, 1.5])
    ex = (low0, high0, jnp.ones((H, d)), jnp.ones((H, d)), jax.random.key(seed))
    e = E1(rep, sess, f, ex, "pets.mpc_action[H=2,d=2]", validate_sets=[ex])
    low, high, plan, prev, key = e.ins
    lo_b, hi_b = S.bcast(S.SA(low).reshape(1, d), (H, d)), S.bcast(S.SA(high).reshape(1, d), (H, d))
    e.add_hyp(S.SA(low) < S.SA(high), lo_b <= S.SA(plan), S.SA(plan) <= hi_b, lo_b <= S.SA(prev), S.SA(prev) <= hi_b)
    e.check_reachable()
    e.obligation("executed-action-is-the-first-action-of-the-optimised-plan", lambda i, o: S.close(S.SA(o[0]), S.SA(i[2])[0]))
    e.obligation("warm-start-plan-for-the-next-call-stays-inside-the-bounds",
                 lambda i, o: S.le(S.bcast(S.SA(i[0]).reshape(1, d), (H, d)), S.SA(o[1])) & S.le(S.SA(o[1]), S.bcast(S.SA(i[1]).reshape(1, d), (H, d))), split=True,
                 site="pets.mpc_action:warm-start-plan-within-bounds")
    e.obligation("planner-starts-from-the-previous-plan", lambda i, o: S.close(S.SA(o[2]), S.SA(i[3])))


def _provenance(rep, tier, seed):
    """F-LOOP: the action handed to env.step is the sampler's (or action_space.sample()'s / the planner's)
    return value, unmodified, and the samplers are built from the environment's own action space."""
    from props import loops as L
    from props import loopworld as W
    from props.e2common import E2Report
    e2 = E2Report(PROP, tier, seed)
    e2.r = rep

    def prog(kind, which, K):
        def run(ctx):
            if kind == "cont":
                tr = L.run_continuous(ctx, which, K, 0, symbolic=("learning_starts",))
            elif kind == "td7":
                tr = L.run_td7(ctx, K, 0, symbolic=("learning_starts",))
            elif kind == "mrq":
                tr = L.run_mrq(ctx, K, 0, symbolic=("learning_starts",))
            else:
                tr = L.run_pets(ctx, which, K, 0)
            ls = tr.cfg["learning_starts"]
            ev_name = {"sac": "policy_sample", "pets": "planner"}.get(which, "sample_actions")
            acts = {at: p for (_, at, p) in tr.w.of(ev_name) if not p.get("warmup")}
            rnd = {at: p for (_, at, p) in tr.w.of("space_sample")}
            for k, st in enumerate(tr.env.steps):
                warm = k < ls
                a = W.tagval(st["action"])
                if k in rnd and k not in acts:
                    ctx.check(a == W.tagval(rnd[k]["action"]), "action-sent-to-the-environment-is-the-action-space-sample-unmodified")
                    ctx.check(warm, "uniform-actions-only-during-warm-up")
                elif k in acts and k not in rnd:
                    ctx.check(a == W.tagval(acts[k]["action"]), "action-sent-to-the-environment-is-the-sampler's-output-unmodified")
                    ctx.check(~warm if not isinstance(warm, bool) else not warm, "policy-actions-only-after-warm-up")
                else:
                    ctx.check(False, "action-has-exactly-one-source")
            for nm in ("make_sample_actions", "make_sample_target_actions"):
                for (_, at, p) in tr.w.of(nm):
                    ctx.check(p["space"] is tr.env.action_space, "samplers-are-built-from-the-environment's-action-space")
        return run
    table = [("cont", w) for w in ("ddpg", "td3", "td3_lap", "sac")] + [("td7", "td7"), ("mrq", "mrq"), ("pets", "pets")]
    for kind, which in table:
        for K in ([2] if tier == "quick" else [2, 3, 4]):
            e2.run(f"provenance:train_{which}[K={K}]", prog(kind, which, K), fn=f"rl_blox.algorithm.{which}", site_of=lambda label, which=which: f"train_{which}:{label}")
    rep.bounds["loop_provenance"] = "DDPG, TD3, TD3+LAP, SAC, TD7, MR.Q, PETS; K<=4 steps; flags and learning_starts symbolic"


def replay(path):
    import json
    print(json.dumps(json.load(open(path)), indent=1))
    return main("quick", 0)
