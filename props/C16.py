"""C16 Black-box optimisers keep their distribution and bookkeeping invariants (E1 + E2)."""
from __future__ import annotations

import itertools
from fractions import Fraction

import jax
import jax.numpy as jnp
import numpy as np
import z3
from flax import nnx

from e2_pysym import core as E
from e2_pysym.core import sym_real
from props import zoo
from props.common import E1, tier_params
from props.e2common import E2Report, overlay
from symcore import sarray as S
from symcore import values as V
from symcore.solver import Session

PROP = "C16"


def order_cases(f, n, descending):
    """Case split over the total orders of a fitness vector (ties broken towards the lower index, as sort/top_k do)."""
    f = S.SA(f)
    out = []
    for perm in itertools.permutations(range(n)):
        c = True
        for a, b in zip(perm[:-1], perm[1:]):
            strict = (f[a] > f[b]) if descending else (f[a] < f[b])
            tie = f[a].eq(f[b])
            cond = strict | tie if a < b else strict
            c = V.s_and(c, cond.item())
        out.append(("order=" + "".join(map(str, perm)), c))
    return out


def main(tier, seed):
    from rl_blox.algorithm import cmaes
    from rl_blox.blox import cross_entropy_method as cem

    tp = tier_params(tier)
    rep = E2Report(PROP, tier, seed)
    r = rep.r
    sess = Session(tp["timeout"])
    sess.keep_smt2 = tier == "thorough"
    r.bounds = {"cmaes_update": "n_params=2, population 4 (mu=2), default and active", "feedback_history": "<= 5 evaluations (population 4), symbolic fitness incl. ties",
                "round_trip": ["MLP", "LayerNormMLP", "GaussianMLP", "DeterministicTanhPolicy", "SoftmaxPolicy"], "cem_update": "population 3-4, elites 1-2, dim 1-2",
                "weights": "population sizes 4..12 (closed constants, evaluated exactly as the code computes them)"}
    r.assumptions = ["real-number semantics; non-finite fitness values cannot be represented and are outside the claim",
                     "update_search_distribution is traced with `int`/`min` of the cmaes module replaced by tracing-compatible equivalents (int(bool)->bool, min->jnp.minimum) and with no eigen-decomposition refresh due in that step",
                     "active CMA-ES variance positivity is NOT claimed (it needs a bounded-noise assumption); symmetry and the default variant's positivity are",
                     "recombination weights are closed constants: checked by exact evaluation of the code's own arithmetic, not by a solver query over inputs"]
    rng = np.random.default_rng(seed)

    # ---- (a) recombination weights (constants)
    for lam in (range(4, 9) if tier == "quick" else range(4, 13)):
        cfg = cmaes.CMAESConfig.create(False, None, True, 0.0, 0.0, 1e7, 2, lam)
        w = np.asarray(cfg.weights, dtype=np.float64)
        ok = bool(np.all(w > 0) and np.all(np.diff(w) <= 0) and abs(w.sum() - 1) < 1e-5 and len(w) == cfg.mu == lam // 2)
        r.obligations.append({"name": f"CMAESConfig.create[lambda={lam}]:weights-positive-nonincreasing-sum-to-one", "verdict": "unsat" if ok else "sat", "secs": 0.0, "kind": "obligation:constant"})
        if not ok:
            r.violation("CMAESConfig.create:weights", f"recombination weights {w} for population {lam}", {"lambda": lam})

    # ---- (b) incumbent bookkeeping (E2 on the real set_evaluation_feedback)
    def feedback_prog(maximize, nonfinite=False):
        from e2_pysym.core import sym_int

        def prog(ctx):
            lam, n = 4, 2
            cfg = cmaes.CMAESConfig.create(False, None, maximize, 0.0, 0.0, 1e7, n, lam)
            st = cmaes.CMAESState.create(jax.random.key(0), jnp.zeros(n), 1.0, None)
            sym = not getattr(ctx, "is_replay", False)

            class JnpShim:
                def __getattr__(self, k):
                    return getattr(jnp, k)

                @staticmethod
                def sum(x, *a, **k):
                    return x if isinstance(x, (E.SymReal, E.SymInt)) else jnp.sum(x, *a, **k)
            names = dict(jnp=JnpShim(), float=lambda x: x if isinstance(x, (E.SymReal, E.SymInt)) else float(x)) if sym else {}
            hist = []
            K = 4 if nonfinite else 5
            pops = []
            with overlay(cmaes, **names):
                pop = None
                for i in range(K):
                    if st.it % lam == 0:
                        pop = cmaes.Population.create(jnp.asarray(rng.normal(size=(lam, n))) + 10 * (i // lam))
                    k = st.it % lam
                    ret = sym_real(f"return{i}")
                    if nonfinite and i < 3:
                        # "all fitness sequences (including ties and non-finite values)": this evaluation may also
                        # return +inf, -inf or NaN.  A NaN return is not comparable: it never becomes the incumbent and
                        # is not counted among the candidates the incumbent has to beat.
                        kind = int(sym_int(f"kind{i}", 0, 3))
                        ret = (ret, float("inf"), float("-inf"), float("nan"))[kind]
                    cmaes.set_evaluation_feedback(cfg, st, pop, ret)
                    is_nan = isinstance(ret, float) and ret != ret
                    if not is_nan:
                        hist.append((ret, np.asarray(pop.samples[k])))
                    best = st.best_fitness
                    reported = -best if maximize else best
                    if hist:
                        ctx.check(not (isinstance(reported, float) and reported != reported), "reported-best-fitness-is-never-NaN-once-a-comparable-candidate-was-evaluated")
                    else:
                        continue
                    # best evaluated so far
                    for (r_j, x_j) in hist:
                        ctx.check((reported >= r_j) if maximize else (reported <= r_j), "reported-best-fitness-is-at-least-as-good-as-every-evaluated-candidate")
                    acc = False
                    for (r_j, x_j) in hist:
                        hit = (reported == r_j) if not bool(np.array_equal(np.asarray(st.best_params), x_j)) is None else False
                        same = bool(np.array_equal(np.asarray(st.best_params), x_j))
                        c = (reported == r_j) & same if not isinstance(reported == r_j, bool) else ((reported == r_j) and same)
                        acc = c if acc is False else (acc | c)
                    ctx.check(acc, "reported-best-parameters-belong-to-a-best-evaluated-candidate")
                    ctx.check(st.it == i + 1, "iteration-counter-advances-by-one-per-evaluation")
        return prog
    for mx in (True, False):
        rep.run(f"set_evaluation_feedback[maximize={mx}]", feedback_prog(mx), fn="rl_blox.algorithm.cmaes.set_evaluation_feedback")
        rep.run(f"set_evaluation_feedback[maximize={mx},non-finite returns]", feedback_prog(mx, True), fn="rl_blox.algorithm.cmaes.set_evaluation_feedback")

    # ---- (c) update of the search distribution (E1; int/min shimmed for tracing)
    n, lam = 2, 4
    for active in (False, True):
        cfg = cmaes.CMAESConfig.create(active, None, True, 0.0, 0.0, 1e7, n, lam)

        def upd(samples, fitness, mean, var, cov, invsqrtC, pc, ps, cfg=cfg):
            st = cmaes.CMAESState(key=jax.random.key(0), it=lam, eigen_decomp_updated=lam, mean=mean, last_mean=mean, var=var, cov=cov, invsqrtC=invsqrtC,
                                  best_fitness=0.0, best_fitness_it=0, best_params=mean, pc=pc, ps=ps)
            pop = cmaes.Population(samples=samples, fitness=fitness)
            with overlay(cmaes, int=lambda x: x, min=lambda t: jnp.minimum(t[0], t[1])):
                cmaes.update_search_distribution(cfg, st, pop)
            return st.mean, st.var, st.cov, st.last_mean
        ex = (jnp.asarray(rng.normal(size=(lam, n)), dtype=jnp.float32), jnp.asarray(rng.normal(size=lam), dtype=jnp.float32), jnp.zeros(n), 1.0,
              jnp.eye(n) * 1.5, jnp.eye(n) * 0.8, jnp.asarray([0.1, -0.2]), jnp.asarray([0.05, 0.3]))
        site = f"update_search_distribution[n={n},lambda={lam},active={active}]"
        e = E1(r, sess, upd, ex, site, validate_sets=[ex])
        samples, fit, mean, var, cov, isc, pc, ps = (S.SA(x) for x in e.ins)
        e.add_hyp(var > 0, cov[0, 1].eq(cov[1, 0]), cov[0, 0] > 0, cov[1, 1] > 0)
        e.check_reachable()
        w = [Fraction(float(x)) for x in np.asarray(cfg.weights)]

        def mean_spec(i, o, perm=None):
            return True
        cases = order_cases(e.ins[1], lam, descending=False)
        for lab, c in cases:
            perm = [int(ch) for ch in lab.split("=")[1]]
            want = S.SA(e.ins[0])[perm[0]] * w[0] + S.SA(e.ins[0])[perm[1]] * w[1]
            q = sess.prove(f"{site}:mean=weighted-best-mu|{lab}", e.hyps + [V.to_z3(c)], S.close(S.SA(e.outs[0]), want).all())
            if q.verdict != "unsat":
                e.obligation("mean=weight-averaged-best-mu-candidates", lambda i, o, perm=perm: S.close(S.SA(o[0]), S.SA(i[0])[perm[0]] * w[0] + S.SA(i[0])[perm[1]] * w[1]),
                             extra_hyps=[c], site="update_search_distribution:mean-is-weighted-best-mu")
                break
        qx = sess.prove(f"{site}:order-cases-exhaustive", e.hyps, z3.Or(*[V.to_z3(c) for _, c in cases]))
        if qx.verdict != "unsat":
            r.inconclusive_(site, "order cases not exhaustive")
        e.obligation("step-size-grows-by-at-most-exp(0.6)(variance<=var*exp(0.6)^2)",
                     lambda i, o: S.le(S.SA(o[1]), S.SA(i[3]) * S.exp(S.SA(Fraction(float(np.float32(0.6))))) * S.exp(S.SA(Fraction(float(np.float32(0.6)))))),
                     site="update_search_distribution:step-size-growth-bounded")
        e.obligation("covariance-stays-symmetric", lambda i, o: S.close(S.SA(o[2])[0, 1], S.SA(o[2])[1, 0]), site="update_search_distribution:covariance-symmetric")
        e.obligation("last_mean=previous-mean", lambda i, o: S.close(S.SA(o[3]), S.SA(i[2])))
        if not active:
            e.obligation("variances-stay-positive(default update)", lambda i, o: [S.SA(o[2])[0, 0] > 0, S.SA(o[2])[1, 1] > 0], site="update_search_distribution:variances-positive")

    # ---- (d) flat_params / set_params round trip
    from rl_blox.blox.function_approximator.gaussian_mlp import GaussianMLP
    from rl_blox.blox.function_approximator.policy_head import SoftmaxPolicy
    nets = {"MLP": zoo.mlp(2, 2, (2,), seed), "LayerNormMLP": zoo.ln_mlp(2, 1, (2,), seed), "GaussianMLP": GaussianMLP(False, 2, 1, [2], "relu", nnx.Rngs(seed)),
            "DeterministicTanhPolicy": zoo.tanh_policy(2, 1, (2,), seed), "SoftmaxPolicy": SoftmaxPolicy(zoo.mlp(2, 2, (), seed))}
    for name, net in nets.items():
        gdef, st = nnx.split(net)
        nparams = int(np.asarray(cmaes.flat_params(net)).size)

        def rt(state, vec, gdef=gdef):
            # identity write-back first (nnx.merge shares Variables with `state`, so take array leaves right away)
            m2 = nnx.merge(gdef, state)
            cmaes.set_params(m2, cmaes.flat_params(m2))
            same = jax.tree_util.tree_leaves(nnx.state(m2))
            m = nnx.merge(gdef, state)
            cmaes.set_params(m, vec)
            back = cmaes.flat_params(m)
            return back, same, jax.tree_util.tree_leaves(nnx.state(m))
        ex = (st, jnp.arange(nparams, dtype=jnp.float32))
        e = E1(r, sess, rt, ex, f"flat_params/set_params[{name}]", validate_sets=[ex])
        e.obligation("read-back-of-a-written-vector-is-the-vector", lambda i, o: S.close(S.SA(o[0]), S.SA(i[1])))
        e.obligation("writing-back-the-read-vector-changes-no-leaf",
                     lambda i, o: [S.close(S.SA(a), S.SA(b)) for a, b in zip(jax.tree_util.tree_leaves(o[1]), jax.tree_util.tree_leaves(i[0]))])

        def all_written(i, o):
            # every Param leaf element of the written network is exactly one entry of the vector, each used once
            elems = [x for l in jax.tree_util.tree_leaves(o[2]) for x in np.asarray(l, dtype=object).reshape(-1)]
            vec = list(np.asarray(i[1], dtype=object).reshape(-1))
            used = [x for x in elems if any(V.s_eq_struct(x, v) for v in vec)]
            return len(used) >= len(vec) and all(sum(1 for x in elems if V.s_eq_struct(x, v)) == 1 for v in vec)
        if not S.MODE.numeric:
            ok = all_written(e.ins, e.outs)
            r.obligations.append({"name": f"flat_params/set_params[{name}]:every-vector-entry-lands-in-exactly-one-parameter", "verdict": "unsat" if ok else "sat", "secs": 0.0, "kind": "obligation:syntactic"})
            if not ok:
                r.inconclusive_(f"set_params[{name}]", "vector entries are not placed one-to-one (symbolic placement check)")

    # ---- (e0) CEM proposes candidates within the bounds
    for (npop, d) in ([(3, 2)] if tier == "quick" else [(2, 1), (3, 2), (4, 2)]):
        def samp(mean, var, key, lb, ub, npop=npop):
            return cem.cem_sample(mean, var, key, npop, lb, ub)
        ex = (jnp.zeros(d), jnp.ones(d) * 0.5, jax.random.key(seed), -jnp.ones(d), jnp.ones(d) * 2)
        e = E1(r, sess, samp, ex, f"cem_sample[pop={npop},d={d}]", validate_sets=[ex])
        mean, var, key, lb, ub = e.ins
        e.add_hyp(S.SA(lb) <= S.SA(mean), S.SA(mean) <= S.SA(ub), S.SA(var) >= 0)
        e.check_reachable()
        e.obligation("candidates-within-bounds", lambda i, o, npop=npop, d=d: [S.le(S.bcast(S.SA(i[3]), (npop, d)), S.SA(o)), S.le(S.SA(o), S.bcast(S.SA(i[4]), (npop, d)))],
                     site="cem_sample:candidates-within-bounds")

    # ---- (e) CEM update: exactly the n_elite best, convex mean update
    for (npop, n_el, d) in ([(3, 1, 1), (3, 2, 2)] if tier == "quick" else [(3, 1, 1), (3, 2, 2), (4, 2, 1), (4, 1, 2)]):
        def upd(samples, fit, mean, var, alpha, n_el=n_el):
            return cem.cem_update(samples, fit, mean, var, n_el, alpha)
        ex = (jnp.asarray(rng.normal(size=(npop, d)), dtype=jnp.float32), jnp.asarray(rng.normal(size=npop), dtype=jnp.float32), jnp.zeros(d), jnp.ones(d), 0.25)
        site = f"cem_update[pop={npop},elite={n_el},d={d}]"
        e = E1(r, sess, upd, ex, site, validate_sets=[ex])
        cases = order_cases(e.ins[1], npop, descending=True)

        def spec(i, o, perm):
            smp, fit, mean, var, al = (S.SA(x) for x in i)
            el = S.stack([smp[p] for p in perm[:n_el]])
            em = el.mean(axis=0)
            ev = ((el - S.bcast(em, el.shape)) ** 2).mean(axis=0)
            return [S.close(S.SA(o[0]), al * mean + (1 - al) * em), S.close(S.SA(o[1]), al * var + (1 - al) * ev)]
        for lab, c in cases:
            perm = [int(ch) for ch in lab.split("=")[1]]
            e.obligation(f"uses-exactly-the-n_elite-best;convex-update|{lab}", lambda i, o, perm=perm: spec(i, o, perm), extra_hyps=[c], site="cem_update:elites-and-convex-update")
        qx = sess.prove(f"{site}:order-cases-exhaustive", e.hyps, z3.Or(*[V.to_z3(c) for _, c in cases]))
        if qx.verdict != "unsat":
            r.inconclusive_(site, "order cases not exhaustive")

    if tier == "thorough":
        bad = sess.cross_check()
        r.extra["cvc5_disagreements"] = bad
        if bad:
            r.inconclusive_("cross-check", f"{bad} z3/cvc5 disagreements")
    r.add_queries(sess)
    return rep.finish()


def replay(path):
    import json
    print(json.dumps(json.load(open(path)), indent=1))
    return main("quick", 0)
