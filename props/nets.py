"""Harness-owned function approximators: a 'free' network whose outputs are its
parameters, so that network outputs range over ALL reals without a non-linear encoder
in the formula.  Only the policy heads / samplers / losses under test are real rl_blox code."""
from __future__ import annotations

import jax.numpy as jnp
from flax import nnx


class FreeNet(nnx.Module):
    """net(x) -> table (x only fixes the leading batch shape)."""

    def __init__(self, out_shape_batched, out_shape_single=None, value=0.0):
        self.table = nnx.Param(jnp.zeros(out_shape_batched) + value)

    def __call__(self, x):
        t = self.table.value
        if x.ndim == 1:  # unbatched observation
            return t[0]
        return t[: x.shape[0]]


class FreeGaussNet(nnx.Module):
    """net(x) -> (mean, log_var) tables."""

    def __init__(self, batch, dim):
        self.mean = nnx.Param(jnp.zeros((batch, dim)))
        self.log_var = nnx.Param(jnp.zeros((batch, dim)))

    def __call__(self, x):
        if x.ndim == 1:
            return self.mean.value[0], self.log_var.value[0]
        return self.mean.value[: x.shape[0]], self.log_var.value[: x.shape[0]]


class FakeBox:
    """Stands in for gym.spaces.Box where only .low/.high/.shape are read."""

    def __init__(self, low, high):
        self.low, self.high = low, high
        self.shape = low.shape
