"""Solver session: every obligation is one query 'hyps and not goal', expected unsat.

Verdicts:  'unsat' (obligation holds for all values within the bound),
           'sat'   (model returned; caller must replay on the real code),
           'unknown' (inconclusive; never reported as success).
"""
from __future__ import annotations

import time
from fractions import Fraction

import z3

from symcore import values as V


class Query:
    __slots__ = ("name", "verdict", "secs", "model", "n_axioms", "kind", "cross", "_smt2")

    def __init__(self, name, verdict, secs, model=None, n_axioms=0, kind="obligation"):
        self.name, self.verdict, self.secs, self.model = name, verdict, secs, model
        self.n_axioms, self.kind, self.cross = n_axioms, kind, None

    def as_dict(self):
        d = {"name": self.name, "verdict": self.verdict, "secs": round(self.secs, 4), "kind": self.kind}
        if self.n_axioms:
            d["ground_axioms"] = self.n_axioms
        if self.cross:
            d["cvc5"] = self.cross
        return d


def _collect_apps(exprs):
    """All applications of uninterpreted functions in the given terms: {name: [args...]}"""
    seen = set()
    apps = {}
    stack = [e for e in exprs if isinstance(e, z3.ExprRef)]
    while stack:
        e = stack.pop()
        i = e.get_id()
        if i in seen:
            continue
        seen.add(i)
        if z3.is_app(e):
            d = e.decl()
            if d.kind() == z3.Z3_OP_UNINTERPRETED and e.num_args() > 0:
                apps.setdefault(d.name(), []).append(e)
            stack.extend(e.children())
    return apps


def ground_axioms(exprs, extra_rounds=1):
    """Ground instances of true facts about exp/log/tanh/... for exactly the
    applications occurring in `exprs` (DESIGN §1.4).  Sound: each is a theorem
    of real analysis, so unsat under them is valid for the real functions."""
    ax = []
    apps = _collect_apps(exprs)
    R = z3.RealVal

    def args_of(name):
        out, seen = [], set()
        for a in apps.get(name, []):
            if a.get_id() not in seen:
                seen.add(a.get_id())
                out.append(a)
        return out

    def pairwise_mono(name, dom=None):
        L = args_of(name)
        for i in range(len(L)):
            for j in range(i + 1, len(L)):
                x, y = L[i].arg(0), L[j].arg(0)
                body = z3.And(z3.Implies(x < y, L[i] < L[j]), z3.Implies(x > y, L[i] > L[j]))
                if dom is not None:
                    body = z3.Implies(z3.And(dom(x), dom(y)), body)
                ax.append(body)
                ax.append(z3.Implies(x == y, L[i] == L[j]))

    for e in args_of("exp"):
        x = e.arg(0)
        ax.append(e > 0)
        ax.append(e >= 1 + x)
        ax.append(z3.Implies(x == 0, e == 1))
        ax.append(z3.Implies(x <= 0, e <= 1))
        ax.append(z3.Implies(x >= 0, e >= 1))
    pairwise_mono("exp")
    for e in args_of("log"):
        x = e.arg(0)
        ax.append(z3.Implies(x > 0, e <= x - 1))
        ax.append(z3.Implies(x == 1, e == 0))
        ax.append(z3.Implies(z3.And(x > 0, x < 1), e < 0))
        ax.append(z3.Implies(x > 1, e > 0))
    pairwise_mono("log", lambda x: x > 0)
    # log(exp t) = t and exp(log x) = x, instantiated for every occurring (log, exp) pair
    for L in args_of("log"):
        x = L.arg(0)
        for E in args_of("exp"):
            t = E.arg(0)
            ax.append(z3.Implies(x == E, L == t))
            ax.append(z3.Implies(z3.And(t == L, x > 0), E == x))
    for e in args_of("tanh"):
        x = e.arg(0)
        ax.append(z3.And(e >= -1, e <= 1))
        ax.append(z3.Implies(x == 0, e == 0))
        ax.append(z3.Implies(x > 0, e > 0))
        ax.append(z3.Implies(x < 0, e < 0))
    pairwise_mono("tanh")
    for e in args_of("sqrt"):
        x = e.arg(0)
        ax.append(z3.Implies(x >= 0, z3.And(e >= 0, e * e == x)))
    for e in args_of("logistic"):
        x = e.arg(0)
        ax.append(z3.And(e > 0, e < 1))
        ax.append(z3.Implies(x == 0, e == R(1) / 2))
    pairwise_mono("logistic")
    for e in args_of("log1p"):
        x = e.arg(0)
        ax.append(z3.Implies(x > -1, e <= x))
        ax.append(z3.Implies(x == 0, e == 0))
        ax.append(z3.Implies(x > 0, e > 0))
    pairwise_mono("log1p", lambda x: x > -1)
    for e in args_of("expm1"):
        x = e.arg(0)
        ax.append(e > -1)
        ax.append(e >= x)
    pairwise_mono("expm1")
    for name in ("cos", "sin"):
        for e in args_of(name):
            ax.append(z3.And(e >= -1, e <= 1))
    for e in args_of("acos"):
        ax.append(z3.Implies(z3.And(e.arg(0) >= -1, e.arg(0) <= 1), e >= 0))
    for e in args_of("erf"):
        ax.append(z3.And(e > -1, e < 1))
    pairwise_mono("erf")
    pairwise_mono("erf_inv", lambda x: z3.And(x > -1, x < 1))
    for e in args_of("pow"):
        b, p = e.arg(0), e.arg(1)
        ax.append(z3.Implies(b > 0, e > 0))
        ax.append(z3.Implies(z3.And(b == 0, p > 0), e == 0))
        ax.append(z3.Implies(z3.And(b > 1, p > 0), e > 1))
        ax.append(z3.Implies(z3.And(b > 0, b < 1, p > 0), e < 1))
        ax.append(z3.Implies(z3.And(b > 1, p < 0), e < 1))
        ax.append(z3.Implies(z3.And(b > 0, b < 1, p < 0), e > 1))
        ax.append(z3.Implies(p == 0, e == 1))
        ax.append(z3.Implies(b == 1, e == 1))
        ax.append(z3.Implies(p == 1, e == b))
    L = args_of("pow")
    for i in range(len(L)):
        for j in range(i + 1, len(L)):
            b1, p1, b2, p2 = L[i].arg(0), L[i].arg(1), L[j].arg(0), L[j].arg(1)
            same_p = p1 == p2
            # monotone in base for fixed exponent sign
            ax.append(z3.Implies(z3.And(same_p, b1 >= 0, b2 >= 0, p1 > 0, b1 < b2), L[i] < L[j]))
            ax.append(z3.Implies(z3.And(same_p, b1 >= 0, b2 >= 0, p1 > 0, b1 > b2), L[i] > L[j]))
            ax.append(z3.Implies(z3.And(same_p, b1 > 0, b2 > 0, p1 < 0, b1 < b2), L[i] > L[j]))
            ax.append(z3.Implies(z3.And(same_p, b1 > 0, b2 > 0, p1 < 0, b1 > b2), L[i] < L[j]))
            ax.append(z3.Implies(z3.And(same_p, b1 == b2), L[i] == L[j]))
    mono = {"exp", "log", "tanh", "logistic", "log1p", "expm1", "erf", "erf_inv"}
    for name in apps:
        if name in mono:
            continue
        L = args_of(name)
        for i in range(len(L)):
            for j in range(i + 1, len(L)):
                ax.append(z3.Implies(z3.And(*[L[i].arg(k) == L[j].arg(k) for k in range(L[i].num_args())]), L[i] == L[j]))
    if extra_rounds > 0 and ax:
        # axioms may mention no new applications; one round is enough for ours
        pass
    return ax


_PORTFOLIO = [
    ("nlsat", lambda ctx=None: z3.Then(z3.Tactic("simplify", ctx=ctx), z3.Tactic("purify-arith", ctx=ctx), z3.Tactic("elim-term-ite", ctx=ctx), z3.Tactic("qfnra-nlsat", ctx=ctx), ctx=ctx)),
    ("ite-elim-smt", lambda ctx=None: z3.Then(z3.Tactic("simplify", ctx=ctx), z3.Tactic("elim-term-ite", ctx=ctx), z3.Tactic("smt", ctx=ctx), ctx=ctx)),
]


def _purified_check(cons, ax, timeout_s, mk=None):
    """Replace every UF application by a fresh real constant (keeping the ground axioms, which
    include congruence), leaving pure QF_NRA for nlsat.  unsat is sound; sat/unknown are not used."""
    allc = list(cons) + list(ax)
    apps = _collect_apps(allc)
    terms = []
    seen = set()
    for lst in apps.values():
        for a in lst:
            if a.get_id() not in seen:
                seen.add(a.get_id())
                terms.append(a)
    # outermost first so nested applications are replaced as a whole before their sub-applications
    terms.sort(key=lambda t: -len(t.sexpr()))
    cur = allc
    for k, t in enumerate(terms):
        fresh = z3.Real(f"uf!{k}")
        # t may itself contain already-substituted inner apps only if processed later; handle by re-substituting t
        cur = [z3.substitute(c, (t, fresh)) for c in cur]
        terms[k + 1:] = [tt for tt in terms[k + 1:]]
    ctx2 = z3.Context()
    s2 = mk(ctx2).solver() if mk is not None else z3.Solver(ctx=ctx2)
    s2.set("timeout", int(1000 * timeout_s))
    for c in cur:
        s2.add(c.translate(ctx2))
    return s2.check(), s2


class Session:
    def __init__(self, timeout_s=20.0, logic=None):
        self.timeout_s = timeout_s
        self.queries: list[Query] = []
        self.solver_s = 0.0
        self.keep_smt2 = False

    def _solver(self, timeout_s=None):
        s = z3.Solver()
        s.set("timeout", int(1000 * (timeout_s or self.timeout_s)))
        return s

    def check_sat(self, name, constraints, axioms_from=None, kind="obligation", timeout_s=None, purify=True):
        """Is the conjunction of `constraints` satisfiable?  Adds ground axioms for
        UF applications found in constraints (+ axioms_from)."""
        cons = [V.to_z3(c) if not isinstance(c, z3.ExprRef) else c for c in constraints]
        cons = [c for c in cons if not z3.is_true(c)]
        ax = ground_axioms(list(cons) + list(axioms_from or []))
        full_t = timeout_s or self.timeout_s
        has_uf = bool(ax)
        first_t = min(full_t, 4.0)

        def run(t, seed=0):
            # fresh context per query: the verdict does not depend on what was solved before
            ctx = z3.Context()
            s_ = z3.Solver(ctx=ctx)
            s_.set("timeout", int(1000 * t))
            if seed:
                s_.set("random_seed", seed)
            for c in cons:
                s_.add(c.translate(ctx))
            for a in ax:
                s_.add(a.translate(ctx))
            return s_.check(), s_
        t0 = time.time()
        if any(z3.is_false(c) for c in cons):
            r, s = z3.unsat, self._solver(1)
        else:
            r, s = run(first_t)
        verdict = str(r)
        if verdict == "unknown":
            # finite-domain case split: variables a hypothesis confines to finitely many values (0/1 flags) are
            # enumerated; every case is decided by the solver with the values asserted as equalities
            r_fd, s_fd = _finite_domain_split(cons, ax, full_t)
            if r_fd is not None:
                verdict, s = r_fd, s_fd
                kind = kind + ":finite-domain-split"
        if verdict == "unknown":
            # portfolio: ite-elimination + nlsat / smt pipelines (pure NRA after purification of UFs)
            for label, mk in _PORTFOLIO:
                if has_uf and purify:
                    r2, s2 = _purified_check(cons, ax, full_t, mk)
                    if str(r2) == "unsat":  # sound: purification only forgets facts about the UFs beyond the axioms
                        verdict, s = "unsat", s2
                        kind = kind + f":purified+{label}"
                        break
                elif not has_uf:
                    ctx2 = z3.Context()
                    s2 = mk(ctx2).solver()
                    s2.set("timeout", int(1000 * full_t))
                    for c in cons:
                        s2.add(c.translate(ctx2))
                    r2 = s2.check()
                    if str(r2) in ("unsat", "sat"):
                        verdict, s = str(r2), s2
                        kind = kind + f":{label}"
                        break
            if verdict == "unknown":
                for sd in (7, 23):
                    r, s = run(full_t, sd)
                    verdict = str(r)
                    if verdict != "unknown":
                        kind = kind + f":seed{sd}"
                        break
        dt = time.time() - t0
        self.solver_s += dt
        model = s.model() if verdict == "sat" else None
        q = Query(name, verdict, dt, model, len(ax), kind)
        q._smt2 = None
        if self.keep_smt2:
            try:
                q._smt2 = s.to_smt2()
            except Exception:
                q._smt2 = None
        self.queries.append(q)
        return q

    def prove(self, name, hyps, goal, **kw):
        """Obligation: hyps => goal for all values.  Returns Query (unsat = holds)."""
        g = V.to_z3(goal) if not isinstance(goal, z3.ExprRef) else goal
        if z3.is_true(g):
            q = Query(name, "unsat", 0.0, None, 0, kw.get("kind", "obligation"))
            q._smt2 = None
            q.kind = kw.get("kind", "obligation") + ":syntactic"
            self.queries.append(q)
            return q
        return self.check_sat(name, list(hyps) + [z3.Not(g)], **kw)

    def reachable(self, name, hyps, **kw):
        """Vacuity guard: hypotheses must be satisfiable (expected sat)."""
        return self.check_sat(name, list(hyps), kind="reachability", **kw)

    def cross_check(self, max_queries=25, timeout_s=20):
        """Re-decide dumped obligations with cvc5 (thorough tier).  Returns #disagreements."""
        try:
            import cvc5  # noqa
            from cvc5 import Kind  # noqa
        except Exception:
            return 0
        bad = 0
        n = 0
        for q in self.queries:
            if q._smt2 is None or q.verdict not in ("sat", "unsat") or n >= max_queries:
                continue
            n += 1
            q.cross = _cvc5_decide(q._smt2, timeout_s)
            if q.cross in ("sat", "unsat") and q.cross != q.verdict:
                bad += 1
        return bad

    def summary(self):
        by = {}
        for q in self.queries:
            by[q.verdict] = by.get(q.verdict, 0) + 1
        return {"queries": len(self.queries), "by_verdict": by, "solver_s": round(self.solver_s, 3)}


def _finite_domains(cons):
    """{var: [numerals]} for top-level constraints Or(v == c1, v == c2, ...) / v == c (either orientation)."""
    doms = {}

    def eq_var_const(e):
        if not z3.is_eq(e):
            return None
        a, b = e.arg(0), e.arg(1)
        for v, c in ((a, b), (b, a)):
            if z3.is_const(v) and v.decl().kind() == z3.Z3_OP_UNINTERPRETED and (z3.is_rational_value(c) or z3.is_int_value(c)):
                return v, c
        return None

    def visit(c):
        if z3.is_and(c):
            for ch in c.children():
                visit(ch)
            return
        alts = c.children() if z3.is_or(c) else [c]
        pairs = [eq_var_const(a) for a in alts]
        if not pairs or any(p is None for p in pairs):
            return
        v0 = pairs[0][0]
        if all(z3.eq(p[0], v0) for p in pairs) and z3.is_or(c):
            doms.setdefault(v0.get_id(), (v0, []))
            vals = [p[1] for p in pairs]
            old = doms[v0.get_id()][1]
            doms[v0.get_id()] = (v0, vals if not old else [x for x in old if any(z3.eq(x, y) for y in vals)])
    for c in cons:
        visit(c)
    return list(doms.values())


def _finite_domain_split(cons, ax, full_t, max_cases=1024):
    doms = _finite_domains(cons)
    if not doms:
        return None, None
    n = 1
    for _, vals in doms:
        n *= max(1, len(vals))
    if n > max_cases or n < 2:
        return None, None
    import itertools
    per = max(2.0, min(10.0, 4 * full_t / n))
    t_end = time.time() + 4 * full_t
    unknown = False
    for combo in itertools.product(*[vals for _, vals in doms]):
        if time.time() > t_end:
            return None, None
        ctx = z3.Context()
        s_ = z3.Solver(ctx=ctx)
        s_.set("timeout", int(1000 * per))
        for c in cons:
            s_.add(c.translate(ctx))
        for a in ax:
            s_.add(a.translate(ctx))
        for (v, _), val in zip(doms, combo):
            s_.add((v == val).translate(ctx))
        r = str(s_.check())
        if r == "sat":
            return "sat", s_
        if r == "unknown":
            unknown = True
    if unknown:
        return None, None
    return "unsat", s_


def _cvc5_decide(smt2, timeout_s):
    import cvc5
    try:
        slv = cvc5.Solver()
        slv.setOption("tlimit-per", str(int(timeout_s * 1000)))
        slv.setLogic("ALL")
        parser = cvc5.InputParser(slv)
        parser.setStringInput(cvc5.InputLanguage.SMT_LIB_2_6, smt2, "q")
        sm = parser.getSymbolManager()
        res = None
        while True:
            cmd = parser.nextCommand()
            if cmd.isNull():
                break
            out = cmd.invoke(slv, sm)
            if "sat" in str(out):
                res = str(out).strip()
        return res or "unknown"
    except Exception as e:  # noqa
        return "error:" + type(e).__name__


def model_value(model, term):
    """Concrete python value (Fraction/int/bool) of a term under a model (with completion)."""
    if not isinstance(term, z3.ExprRef):
        return term
    if term.ctx != model.ctx:
        term = term.translate(model.ctx)
    v = model.eval(term, model_completion=True)
    if z3.is_true(v):
        return True
    if z3.is_false(v):
        return False
    if z3.is_int_value(v):
        return v.as_long()
    if z3.is_rational_value(v):
        return Fraction(v.numerator_as_long(), v.denominator_as_long())
    if z3.is_algebraic_value(v):
        a = v.approx(20)
        return Fraction(a.numerator_as_long(), a.denominator_as_long())
    raise V.Unsupported(f"model value {v}")
