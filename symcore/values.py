"""Scalar value domain shared by both engines.

An element is one of
  * a concrete Python ``bool`` / ``int`` / ``fractions.Fraction``
  * a z3 ``BoolRef`` / ``ArithRef`` (Int or Real sort)
  * an ``AbsKey`` (abstract PRNG key term, see e1_jaxpr.prng)
Arrays are numpy ``object`` arrays of such elements.

All helper functions constant-fold so that concrete sub-computations never
reach the solver and structurally equal computations give identical z3 ASTs.
Floats are mapped to exact rationals: every statement made with these values is
a statement about real arithmetic (see DESIGN §1.4).
"""
from __future__ import annotations

import math
from fractions import Fraction

import numpy as np
import z3

Z = z3

_UF = {}
_DIV0 = 0
INF_APPROX = []  # (fresh real, sign) standing for +-inf in symbolic selects


def uf(name, arity=1):
    key = (name, arity)
    if key not in _UF:
        _UF[key] = z3.Function(name, *([z3.RealSort()] * arity), z3.RealSort())
    return _UF[key]


def is_sym(x):
    return isinstance(x, z3.ExprRef)


def is_conc(x):
    return not isinstance(x, z3.ExprRef)


def norm_conc(x):
    """Normalise a concrete python/numpy scalar to bool/int/Fraction."""
    if isinstance(x, (bool, np.bool_)):
        return bool(x)
    if isinstance(x, (int, np.integer)):
        return int(x)
    if isinstance(x, Fraction):
        return x if x.denominator != 1 else Fraction(x)  # keep Fraction type
    if isinstance(x, (float, np.floating)):
        f = float(x)
        if math.isnan(f) or math.isinf(f):
            return NonFinite(f)
        return Fraction(f)
    return x


class NonFinite:
    """Concrete +-inf / nan constant appearing in a jaxpr (e.g. -inf init of a
    max-reduction).  Only a few operations are defined on it."""

    def __init__(self, f):
        self.f = f

    def __repr__(self):
        return f"NonFinite({self.f})"

    def __eq__(self, o):
        return isinstance(o, NonFinite) and (
            self.f == o.f or (math.isnan(self.f) and math.isnan(o.f))
        )

    def __hash__(self):
        return hash(("NF", str(self.f)))


class Unsupported(Exception):
    """Raised when the encoding cannot represent an operation (harness error)."""


def to_z3(x):
    if isinstance(x, z3.ExprRef):
        return x
    if isinstance(x, bool):
        return z3.BoolVal(x)
    if isinstance(x, int):
        return z3.IntVal(x)
    if isinstance(x, Fraction):
        return z3.RealVal(str(x.numerator) + "/" + str(x.denominator)) if x.denominator != 1 else z3.RealVal(x.numerator)
    if isinstance(x, float):
        return to_z3(Fraction(x))
    raise Unsupported(f"cannot turn {x!r} into a z3 term")


def to_real(x):
    """Value as a real-sorted thing (Fraction or z3 Real)."""
    if isinstance(x, bool):
        return Fraction(int(x))
    if isinstance(x, int):
        return Fraction(x)
    if isinstance(x, Fraction):
        return x
    if isinstance(x, z3.BoolRef):
        return z3.If(x, z3.RealVal(1), z3.RealVal(0))
    if isinstance(x, z3.ArithRef):
        return z3.ToReal(x) if x.is_int() else x
    if isinstance(x, NonFinite):
        return x
    raise Unsupported(f"to_real({x!r})")


def to_int(x):
    """Value as integer-sorted (truncation toward zero for reals)."""
    if isinstance(x, bool):
        return int(x)
    if isinstance(x, int):
        return x
    if isinstance(x, Fraction):
        return int(x)  # trunc toward zero
    if isinstance(x, z3.BoolRef):
        return z3.If(x, z3.IntVal(1), z3.IntVal(0))
    if isinstance(x, z3.ArithRef):
        if x.is_int():
            return x
        return z3.If(x >= 0, z3.ToInt(x), -z3.ToInt(-x))
    raise Unsupported(f"to_int({x!r})")


def to_bool(x):
    if isinstance(x, bool):
        return x
    if isinstance(x, (int, Fraction)):
        return x != 0
    if isinstance(x, z3.BoolRef):
        return x
    if isinstance(x, z3.ArithRef):
        return x != 0
    raise Unsupported(f"to_bool({x!r})")


def _is_int_like(x):
    return isinstance(x, (bool, int)) or (isinstance(x, z3.ArithRef) and x.is_int()) or isinstance(x, z3.BoolRef)


def _arith(x):
    """Booleans used arithmetically -> int."""
    if isinstance(x, bool):
        return int(x)
    if isinstance(x, z3.BoolRef):
        return z3.If(x, z3.IntVal(1), z3.IntVal(0))
    return x


def _both(a, b):
    a, b = _arith(a), _arith(b)
    if is_conc(a) and is_conc(b):
        return a, b, True
    # at least one symbolic: make sorts agree
    ai, bi = _is_int_like(a), _is_int_like(b)
    if ai and bi:
        return to_z3(a), to_z3(b), False
    return to_z3(to_real(a)), to_z3(to_real(b)), False


def s_add(a, b):
    if isinstance(a, NonFinite) or isinstance(b, NonFinite):
        return _nf_arith("add", a, b)
    if is_conc(a) and a == 0 and not isinstance(a, bool):
        return _arith(b)
    if is_conc(b) and b == 0 and not isinstance(b, bool):
        return _arith(a)
    a, b, c = _both(a, b)
    return a + b


def s_sub(a, b):
    if isinstance(a, NonFinite) or isinstance(b, NonFinite):
        return _nf_arith("sub", a, b)
    if is_conc(b) and b == 0 and not isinstance(b, bool):
        return _arith(a)
    a, b, c = _both(a, b)
    if not c and z3.eq(a, b):
        return 0 if a.is_int() else Fraction(0)
    return a - b


def s_neg(a):
    if isinstance(a, NonFinite):
        return NonFinite(-a.f)
    a = _arith(a)
    return -a


def s_mul(a, b):
    if isinstance(a, NonFinite) or isinstance(b, NonFinite):
        return _nf_arith("mul", a, b)
    a0, b0 = _arith(a), _arith(b)
    if is_conc(a0) and is_conc(b0):
        return a0 * b0
    for x, y in ((a0, b0), (b0, a0)):
        if is_conc(x):
            if x == 0:
                return Fraction(0) if (isinstance(x, Fraction) or not _is_int_like(y)) else 0
            if x == 1:
                if isinstance(x, Fraction):
                    return to_real(y)
                return y
    a, b, c = _both(a0, b0)
    return a * b


def s_div(a, b):
    """Real division."""
    if isinstance(a, NonFinite) or isinstance(b, NonFinite):
        return _nf_arith("div", a, b)
    a, b = to_real(a), to_real(b)
    if is_conc(b):
        if b == 0:
            # x/0 is inf/nan in floating point: modelled as an arbitrary (poison) real; any obligation that can
            # observe it becomes sat and is then decided by replay on the real code
            if is_conc(a):
                return NonFinite(float("nan") if a == 0 else math.copysign(float("inf"), float(a)))
            global _DIV0
            _DIV0 += 1
            return z3.Real(f"div0!{_DIV0}")
        if is_conc(a):
            return a / b
        if b == 1:
            return a
        return a * to_z3(1 / b)
    if is_conc(a) and a == 0:
        return Fraction(0)
    return to_z3(a) / b


def s_idiv(a, b):
    """Integer division, truncating toward zero (lax.div on ints)."""
    a, b = to_int(a), to_int(b)
    if is_conc(a) and is_conc(b):
        q = abs(a) // abs(b)
        return q if (a >= 0) == (b >= 0) else -q
    a, b = to_z3(a), to_z3(b)
    # z3 div is euclidean; build truncation
    q = z3.If(a >= 0, a, -a) / z3.If(b >= 0, b, -b)
    return z3.If((a >= 0) == (b >= 0), q, -q)


def s_rem(a, b):
    """lax.rem: sign follows dividend."""
    if _is_int_like(a) and _is_int_like(b):
        a, b = to_int(a), to_int(b)
        if is_conc(a) and is_conc(b):
            return int(math.fmod(a, b))
        return s_sub(a, s_mul(s_idiv(a, b), b))
    a, b = to_real(a), to_real(b)
    if is_conc(a) and is_conc(b):
        q = int(a / b)
        return a - q * b
    q = to_real(to_int(s_div(a, b)))
    return s_sub(a, s_mul(q, b))


def _nf_arith(op, a, b):
    fa = a.f if isinstance(a, NonFinite) else a
    fb = b.f if isinstance(b, NonFinite) else b
    if is_sym(fa) or is_sym(fb):
        if any(isinstance(x, NonFinite) and x.f != x.f for x in (a, b)):
            # a NaN constant computed by the program (0/0 of configuration values) absorbs the symbolic operand: the
            # result is an unconstrained "poison" real, so everything that can observe it is sat and goes to replay
            global _DIV0
            _DIV0 += 1
            return z3.Real(f"div0!nan{_DIV0}")
        raise Unsupported(f"non-finite constant in symbolic {op}")
    fa, fb = float(fa), float(fb)
    r = {"add": fa + fb, "sub": fa - fb, "mul": fa * fb, "div": fa / fb if fb else math.nan}[op]
    return norm_conc(r)


def s_cmp(op, a, b):
    if isinstance(a, NonFinite) or isinstance(b, NonFinite):
        fa = a.f if isinstance(a, NonFinite) else a
        fb = b.f if isinstance(b, NonFinite) else b
        for v, other, is_left in ((fa, fb, True), (fb, fa, False)):
            pass
        # comparisons against +-inf: decide when possible
        if isinstance(a, NonFinite) and isinstance(b, NonFinite):
            return {"lt": a.f < b.f, "le": a.f <= b.f, "gt": a.f > b.f, "ge": a.f >= b.f, "eq": a.f == b.f, "ne": a.f != b.f}[op]
        if isinstance(a, NonFinite):
            if math.isnan(a.f):
                return op == "ne"
            pos = a.f > 0
            return {"lt": not pos, "le": not pos, "gt": pos, "ge": pos, "eq": False, "ne": True}[op]
        if math.isnan(b.f):
            return op == "ne"
        pos = b.f > 0
        return {"lt": pos, "le": pos, "gt": not pos, "ge": not pos, "eq": False, "ne": True}[op]
    if isinstance(a, (bool, z3.BoolRef)) and isinstance(b, (bool, z3.BoolRef)) and op in ("eq", "ne"):
        if is_conc(a) and is_conc(b):
            return (a == b) if op == "eq" else (a != b)
        a, b = to_z3(a), to_z3(b)
        return (a == b) if op == "eq" else z3.Xor(a, b)
    a, b, c = _both(a, b)
    if c:
        return {"lt": a < b, "le": a <= b, "gt": a > b, "ge": a >= b, "eq": a == b, "ne": a != b}[op]
    if z3.eq(a, b):
        return op in ("le", "ge", "eq")
    return {"lt": a < b, "le": a <= b, "gt": a > b, "ge": a >= b, "eq": a == b, "ne": a != b}[op]


def s_ite(c, a, b):
    if isinstance(c, bool):
        return a if c else b
    if isinstance(c, (int, Fraction)):
        return a if c != 0 else b
    c = to_bool(c)
    if isinstance(a, NonFinite) or isinstance(b, NonFinite):
        # +-inf as one arm of a data-dependent select (e.g. where(d < 0, inf, d) before an argmin): approximated by a
        # fresh real beyond +-10**15.  E1 records the approximation: `sat` is replayed on the real code as always, an
        # `unsat` obtained under it is reported as inconclusive (inf - inf, 0 * inf are not modelled).
        def _fin(v):
            if not isinstance(v, NonFinite):
                return v
            if v.f != v.f:
                raise Unsupported("symbolic select with a NaN constant")
            sym = z3.Real(f"inf!{len(INF_APPROX)}")
            INF_APPROX.append((sym, 1 if v.f > 0 else -1))
            return sym
        a, b = _fin(a), _fin(b)
    if is_conc(a) and is_conc(b) and type(a) is type(b) and a == b:
        return a
    if is_sym(a) and is_sym(b) and z3.eq(a, b):
        return a
    if isinstance(a, (bool, z3.BoolRef)) and isinstance(b, (bool, z3.BoolRef)):
        return z3.If(c, to_z3(a), to_z3(b))
    a2, b2, _ = _both(a, b)
    return z3.If(c, to_z3(a2), to_z3(b2))


def s_and(a, b):
    if isinstance(a, bool):
        return b if a else False
    if isinstance(b, bool):
        return a if b else False
    return z3.And(to_bool(a), to_bool(b))


def s_or(a, b):
    if isinstance(a, bool):
        return True if a else b
    if isinstance(b, bool):
        return True if b else a
    return z3.Or(to_bool(a), to_bool(b))


def s_not(a):
    if isinstance(a, bool):
        return not a
    return z3.Not(to_bool(a))


def s_max(a, b):
    if isinstance(a, NonFinite):
        return b if a.f < 0 else a
    if isinstance(b, NonFinite):
        return a if b.f < 0 else b
    if isinstance(a, (bool, z3.BoolRef)) and isinstance(b, (bool, z3.BoolRef)):
        return s_or(a, b)
    a2, b2, c = _both(a, b)
    if c:
        return a2 if a2 >= b2 else b2
    if z3.eq(a2, b2):
        return a2
    return z3.If(a2 >= b2, a2, b2)


def s_min(a, b):
    if isinstance(a, NonFinite):
        return b if a.f > 0 else a
    if isinstance(b, NonFinite):
        return a if b.f > 0 else b
    if isinstance(a, (bool, z3.BoolRef)) and isinstance(b, (bool, z3.BoolRef)):
        return s_and(a, b)
    a2, b2, c = _both(a, b)
    if c:
        return a2 if a2 <= b2 else b2
    if z3.eq(a2, b2):
        return a2
    return z3.If(a2 <= b2, a2, b2)


def s_abs(a):
    a = _arith(a)
    if is_conc(a):
        return abs(a)
    return z3.If(a >= 0, a, -a)


def s_sign(a):
    a = _arith(a)
    if is_conc(a):
        z = Fraction(0) if isinstance(a, Fraction) else 0
        return type(z)((a > 0) - (a < 0))
    if a.is_int():
        return z3.If(a > 0, z3.IntVal(1), z3.If(a < 0, z3.IntVal(-1), z3.IntVal(0)))
    return z3.If(a > 0, z3.RealVal(1), z3.If(a < 0, z3.RealVal(-1), z3.RealVal(0)))


def s_floor(a):
    a = to_real(a)
    if is_conc(a):
        return Fraction(math.floor(a))
    return z3.ToReal(z3.ToInt(a))


def s_ceil(a):
    a = to_real(a)
    if is_conc(a):
        return Fraction(math.ceil(a))
    return -z3.ToReal(z3.ToInt(-a))


def s_ipow(a, n: int):
    a = _arith(a)
    if n == 0:
        return Fraction(1) if not _is_int_like(a) else 1
    if n < 0:
        return s_div(Fraction(1), s_ipow(a, -n))
    r = a
    for _ in range(n - 1):
        r = s_mul(r, a)
    return r


# ---- transcendental functions: exact on the few special points, UF otherwise

_SPECIAL = {
    "exp": {Fraction(0): Fraction(1)},
    "log": {Fraction(1): Fraction(0)},
    "tanh": {Fraction(0): Fraction(0)},
    "sqrt": {Fraction(0): Fraction(0), Fraction(1): Fraction(1)},
    "log1p": {Fraction(0): Fraction(0)},
    "expm1": {Fraction(0): Fraction(0)},
    "logistic": {Fraction(0): Fraction(1, 2)},
    "sin": {Fraction(0): Fraction(0)},
    "cos": {Fraction(0): Fraction(1)},
    "erf_inv": {Fraction(0): Fraction(0)},
    "erf": {Fraction(0): Fraction(0)},
    "atan": {Fraction(0): Fraction(0)},
    "acos": {Fraction(1): Fraction(0)},
}


def s_fn(name, a):
    a = to_real(a)
    if isinstance(a, NonFinite):
        f = a.f
        if name == "exp":
            return Fraction(0) if f < 0 else a
        if name == "tanh":
            return Fraction(1) if f > 0 else Fraction(-1)
        if name == "logistic":
            return Fraction(1) if f > 0 else Fraction(0)
        raise Unsupported(f"{name}({a})")
    if is_conc(a):
        sp = _SPECIAL.get(name, {})
        if a in sp:
            return sp[a]
        if name == "sqrt":
            n, d = a.numerator, a.denominator
            if n >= 0:
                rn, rd = math.isqrt(n), math.isqrt(d)
                if rn * rn == n and rd * rd == d:
                    return Fraction(rn, rd)
    if name == "rsqrt":
        return s_div(Fraction(1), s_fn("sqrt", a))
    if name == "square":
        return s_mul(a, a)
    return uf(name)(to_z3(a))


def s_pow(a, b):
    a, b = to_real(a), to_real(b)
    if is_conc(b):
        if b.denominator == 1 and abs(b.numerator) <= 8:
            return s_ipow(a, int(b))
        if b == Fraction(1, 2):
            return s_fn("sqrt", a)
    if is_conc(a) and a == 1:
        return Fraction(1)
    return uf("pow", 2)(to_z3(a), to_z3(b))


def s_eq_struct(a, b):
    """Structural (syntactic) equality of two elements."""
    if is_sym(a) and is_sym(b):
        return z3.eq(a, b)
    if is_conc(a) and is_conc(b):
        if isinstance(a, NonFinite) or isinstance(b, NonFinite):
            return a == b
        return _arith(a) == _arith(b)
    return False


# ---- array helpers -------------------------------------------------------

def obj_array(x):
    """Turn a python/numpy/jax array(-like) into an object array of normalised elements."""
    a = np.asarray(x)
    if a.dtype == object:
        out = np.empty(a.shape, dtype=object)
        for idx in np.ndindex(a.shape):
            v = a[idx]
            out[idx] = v if is_sym(v) or isinstance(v, (AbsKeyBase, NonFinite)) else norm_conc(v)
        return out
    out = np.empty(a.shape, dtype=object)
    flat = out.reshape(-1) if out.size else out
    src = a.reshape(-1)
    for i in range(src.size):
        flat[i] = norm_conc(src[i].item() if hasattr(src[i], "item") else src[i])
    return out


class AbsKeyBase:
    pass


def vec(f, nin):
    g = np.frompyfunc(f, nin, 1)

    def h(*arrs):
        r = g(*arrs)
        if not isinstance(r, np.ndarray):
            o = np.empty((), dtype=object)
            o[()] = r
            return o
        return r

    return h


def sym_reals(name, shape):
    out = np.empty(shape, dtype=object)
    for idx in np.ndindex(*shape) if shape else [()]:
        out[idx] = z3.Real(name + ("_" + "_".join(map(str, idx)) if idx else ""))
    return out


def sym_ints(name, shape):
    out = np.empty(shape, dtype=object)
    for idx in np.ndindex(*shape) if shape else [()]:
        out[idx] = z3.Int(name + ("_" + "_".join(map(str, idx)) if idx else ""))
    return out


def sym_bools(name, shape):
    out = np.empty(shape, dtype=object)
    for idx in np.ndindex(*shape) if shape else [()]:
        out[idx] = z3.Bool(name + ("_" + "_".join(map(str, idx)) if idx else ""))
    return out


def flat_elems(a):
    a = np.asarray(a, dtype=object)
    return list(a.reshape(-1))
