"""SA: a thin array wrapper over numpy object arrays of domain elements, with operator
overloading, used to write the *reference formulas* (oracles) once and evaluate them
both symbolically (z3 terms) and concretely (exact rationals; transcendental
functions numerically when MODE.numeric is set) for replay.
"""
from __future__ import annotations

import math
from fractions import Fraction

import numpy as np
import z3

from symcore import values as V
from symcore.values import (obj_array, s_abs, s_add, s_and, s_cmp, s_div, s_fn, s_ite, s_max, s_min, s_mul,
                            s_neg, s_not, s_or, s_sub, s_sign, s_floor, to_real, vec)


class _Mode:
    numeric = False  # replay mode: transcendental functions evaluated in float64
    tol = 0.0  # replay mode: tolerance for close()/le()


MODE = _Mode()


def _fn(name):
    def f(x):
        if MODE.numeric and V.is_conc(x) and not isinstance(x, V.NonFinite):
            from e1_jaxpr.interp import _num_fn
            return _num_fn(name, x)
        return s_fn(name, x)
    return f


def _arr(x):
    if isinstance(x, SA):
        return x.a
    if isinstance(x, np.ndarray) and x.dtype == object:
        return x
    if isinstance(x, (z3.ExprRef, Fraction, V.NonFinite)):
        o = np.empty((), dtype=object)
        o[()] = x
        return o
    return obj_array(np.asarray(x))


def _b2(f):
    g = vec(f, 2)

    def h(a, b):
        a, b = _arr(a), _arr(b)
        return SA(g(a, b))
    return h


class SA:
    __array_priority__ = 1000

    def __init__(self, a):
        self.a = _arr(a)

    # structure
    @property
    def shape(self):
        return self.a.shape

    @property
    def ndim(self):
        return self.a.ndim

    def __len__(self):
        return len(self.a)

    def __getitem__(self, i):
        if isinstance(i, SA):
            i = np.array([int(x) for x in i.a.reshape(-1)]).reshape(i.shape)
        r = self.a[i]
        return SA(r)

    def item(self):
        return self.a.reshape(-1)[0]

    def reshape(self, *s):
        return SA(self.a.reshape(*s))

    @property
    def T(self):
        return SA(self.a.T)

    def flat(self):
        return list(self.a.reshape(-1))

    def __iter__(self):
        for i in range(len(self.a)):
            yield self[i]

    # arithmetic
    __add__ = lambda s, o: _b2(s_add)(s, o)
    __radd__ = lambda s, o: _b2(s_add)(o, s)
    __sub__ = lambda s, o: _b2(s_sub)(s, o)
    __rsub__ = lambda s, o: _b2(s_sub)(o, s)
    __mul__ = lambda s, o: _b2(s_mul)(s, o)
    __rmul__ = lambda s, o: _b2(s_mul)(o, s)
    __truediv__ = lambda s, o: _b2(s_div)(s, o)
    __rtruediv__ = lambda s, o: _b2(s_div)(o, s)
    __neg__ = lambda s: SA(vec(s_neg, 1)(s.a))
    __abs__ = lambda s: SA(vec(s_abs, 1)(s.a))

    def __pow__(self, n):
        return SA(vec(lambda x: V.s_ipow(x, int(n)), 1)(self.a))

    # comparisons (elementwise, SA of bool elements)
    __lt__ = lambda s, o: _b2(lambda a, b: s_cmp("lt", a, b))(s, o)
    __le__ = lambda s, o: _b2(lambda a, b: s_cmp("le", a, b))(s, o)
    __gt__ = lambda s, o: _b2(lambda a, b: s_cmp("gt", a, b))(s, o)
    __ge__ = lambda s, o: _b2(lambda a, b: s_cmp("ge", a, b))(s, o)

    def eq(self, o):
        return _b2(lambda a, b: s_cmp("eq", a, b))(self, o)

    def ne(self, o):
        return _b2(lambda a, b: s_cmp("ne", a, b))(self, o)

    __and__ = lambda s, o: _b2(s_and)(s, o)
    __or__ = lambda s, o: _b2(s_or)(s, o)
    __invert__ = lambda s: SA(vec(s_not, 1)(s.a))

    # reductions
    def _red(self, f, axis, init):
        a = self.a
        if axis is None:
            acc = init
            for v in a.reshape(-1):
                acc = v if acc is None else f(acc, v)
            return SA(acc)
        axis = axis % a.ndim
        m = np.moveaxis(a, axis, -1)
        out = np.empty(m.shape[:-1], dtype=object)
        for idx in np.ndindex(*m.shape[:-1]) if m.ndim > 1 else [()]:
            acc = init
            for v in m[idx]:
                acc = v if acc is None else f(acc, v)
            out[idx] = acc
        return SA(out)

    def sum(self, axis=None):
        return self._red(s_add, axis, Fraction(0))

    def mean(self, axis=None):
        n = self.a.size if axis is None else self.a.shape[axis]
        return self.sum(axis) / Fraction(n)

    def max(self, axis=None):
        return self._red(s_max, axis, None)

    def min(self, axis=None):
        return self._red(s_min, axis, None)

    def all(self):
        return self._red(s_and, None, True).item()

    def any(self):
        return self._red(s_or, None, False).item()

    def real(self):
        return SA(vec(to_real, 1)(self.a))

    def __repr__(self):
        return f"SA({self.a!r})"


def where(c, a, b):
    c, a, b = _arr(c), _arr(a), _arr(b)
    return SA(vec(s_ite, 3)(c, a, b))


def maximum(a, b):
    return _b2(s_max)(a, b)


def minimum(a, b):
    return _b2(s_min)(a, b)


def clip(x, lo, hi):
    return minimum(maximum(x, lo), hi)


def sign(x):
    return SA(vec(s_sign, 1)(_arr(x)))


def floor(x):
    return SA(vec(s_floor, 1)(_arr(x)))


def exp(x):
    return SA(vec(_fn("exp"), 1)(_arr(x)))


def log(x):
    return SA(vec(_fn("log"), 1)(_arr(x)))


def tanh(x):
    return SA(vec(_fn("tanh"), 1)(_arr(x)))


def sqrt(x):
    return SA(vec(_fn("sqrt"), 1)(_arr(x)))


def fn(name, x):
    return SA(vec(_fn(name), 1)(_arr(x)))


def stack(xs, axis=0):
    return SA(np.stack([_arr(x) for x in xs], axis=axis))


def concat(xs, axis=0):
    return SA(np.concatenate([_arr(x) for x in xs], axis=axis))


def bcast(x, shape):
    return SA(np.broadcast_to(_arr(x), shape))


# ---- goals -----------------------------------------------------------------

def close(a, b):
    """Symbolic mode: exact equality (real arithmetic).  Replay mode: within tolerance."""
    a, b = SA(a), SA(b)
    if a.shape != b.shape:
        a, b = SA(np.broadcast_to(a.a, np.broadcast_shapes(a.shape, b.shape))), SA(np.broadcast_to(b.a, np.broadcast_shapes(a.shape, b.shape)))
    if MODE.numeric:
        def c(x, y):
            if isinstance(x, V.NonFinite) or isinstance(y, V.NonFinite):
                return x == y
            if isinstance(x, bool) or isinstance(y, bool):
                return bool(x) == bool(y)
            return abs(x - y) <= MODE.tol * (1 + abs(y))
        return SA(vec(c, 2)(a.a, b.a))
    return a.eq(b)


def le(a, b):
    """a <= b ; replay mode: with tolerance slack."""
    if MODE.numeric:
        def c(x, y):
            if isinstance(x, V.NonFinite) or isinstance(y, V.NonFinite):
                return V.s_cmp("le", x, y)
            return x <= y + MODE.tol * (1 + abs(y))
        return SA(vec(c, 2)(*np.broadcast_arrays(_arr(a), _arr(b))))
    return SA(a) <= SA(b)


def conj(x):
    """Conjunction of an SA of bools / list of bools into one element."""
    if isinstance(x, SA):
        return x.all()
    acc = True
    for v in x:
        acc = s_and(acc, v.all() if isinstance(v, SA) else v)
    return acc
