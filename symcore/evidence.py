"""Evidence writer + harness result plumbing (exit codes, VIOLATION lines)."""
from __future__ import annotations

import json
import os
import sys
import time

VERIF = os.path.dirname(os.path.dirname(os.path.abspath(__file__)))
# experiments on seeded worktrees write their evidence/replays elsewhere so that /verif/evidence only ever holds runs against /repo
OUT = os.environ.get("VERIF_OUT") or VERIF

EXIT_OK, EXIT_VIOLATION, EXIT_INCONCLUSIVE = 0, 1, 2


def load_known(prop):
    """known_findings.txt lines:  'known: property=<id> site=<site> <text>'  /  'fixed: ...'"""
    known = {}
    p = os.path.join(VERIF, "known_findings.txt")
    if os.path.exists(p):
        for line in open(p):
            line = line.strip()
            if not line.startswith("known:"):
                continue
            parts = line.split(None, 3)
            if len(parts) < 3 or parts[1] != f"property={prop}":
                continue
            site = parts[2].split("=", 1)[1] if parts[2].startswith("site=") else parts[2]
            known[site] = parts[3] if len(parts) > 3 else ""
    return known


class Report:
    """Collects obligations, violations and inconclusives for one property run."""

    def __init__(self, prop, tier, seed, level="model_checking"):
        self.prop, self.tier, self.seed, self.level = prop, tier, seed, level
        self.t0 = time.time()
        self.obligations = []  # dicts {name, verdict, secs, ...}
        self.violations = []  # dicts {site, what, replay}
        self.known_hits = []
        self.inconclusive = []
        self.functions = []
        self.bounds = {}
        self.assumptions = []
        self.stubs = []
        self.samples = []
        self.extra = {}
        self.solver_s = 0.0
        self.paths = 0
        self.branches = 0
        self.replayed = 0
        self.known = load_known(prop)

    # -- recording
    def add_queries(self, session, prefix=""):
        for q in session.queries:
            d = q.as_dict()
            d["name"] = prefix + d["name"]
            self.obligations.append(d)
        self.solver_s += session.solver_s
        session.queries = []
        session.solver_s = 0.0

    def violation(self, site, what, replay_obj):
        """A counterexample that was REPLAYED on the real code and reproduced."""
        if site in self.known:
            if site not in [k["site"] for k in self.known_hits]:
                self.known_hits.append({"site": site, "what": what})
            return None
        for v in self.violations:
            if v["site"] == site:
                return v["replay"]
        d = os.path.join(OUT, "replays", self.prop)
        os.makedirs(d, exist_ok=True)
        path = os.path.join(d, f"{len(self.violations)}_{_slug(site)}.json")
        with open(path, "w") as f:
            json.dump({"property": self.prop, "site": site, "what": what, "replay": replay_obj}, f, indent=1, default=str)
        self.violations.append({"site": site, "what": what, "replay": path})
        return path

    def inconclusive_(self, site, why):
        self.inconclusive.append({"site": site, "why": why})

    # -- finishing
    def finish(self):
        wall = time.time() - self.t0
        n_obl = len([o for o in self.obligations if o["kind"].startswith("obligation")])
        n_dis = len([o for o in self.obligations if o["kind"].startswith("obligation") and o["verdict"] == "unsat"])
        nontrivial = len({o["name"] for o in self.obligations if o["kind"] == "obligation"})
        cov = {
            "evaluations": max(len(self.obligations) + int(self.extra.get("solver_queries", 0)), 1),
            "distinct_nontrivial": nontrivial,
            "rule": "one evaluation = one SMT query (obligation 'hyps and not goal' expected unsat, or reachability twin expected sat); "
                    "distinct_nontrivial counts distinct obligation names that needed an actual solver call (syntactically true goals excluded)",
            "samples": self.samples[:12] or [o for o in self.obligations[:6]],
            "obligations": n_obl,
            "discharged": n_dis,
            "functions_encoded": self.functions,
            "bounds": self.bounds,
            "stubs": self.stubs,
            "solver_s": round(self.solver_s, 3),
            "queries_by_verdict": _by(self.obligations),
            "paths_explored": self.paths,
            "branch_decisions": self.branches,
            "traces_validated_against_impl": self.replayed,
            "known_findings_hit": self.known_hits,
            "inconclusive": self.inconclusive,
            "exhaustive": False,
            "obligation_log": self.obligations[:400],
        }
        if self.paths:
            cov["states"] = self.paths
            cov["transitions"] = max(self.branches, 1)
        cov.update(self.extra)
        ev = {
            "property_id": self.prop, "tier": self.tier, "seed": int(self.seed), "level": self.level,
            "coverage": cov, "assumptions": self.assumptions, "wall_s": round(wall, 2),
            "violations": len(self.violations),
        }
        os.makedirs(os.path.join(OUT, "evidence"), exist_ok=True)
        with open(os.path.join(OUT, "evidence", f"{self.prop}.json"), "w") as f:
            json.dump(ev, f, indent=1, default=str)
        for k in self.known_hits:
            print(f"KNOWN-FINDING: property={self.prop} {k['site']} {k['what']}")
        for v in self.violations:
            print(f"VIOLATION property={self.prop} replay={v['replay']}")
            print(f"  site={v['site']}: {v['what']}")
        if self.violations:
            return EXIT_VIOLATION
        if self.inconclusive:
            for i in self.inconclusive:
                print(f"INCONCLUSIVE property={self.prop} {i['site']}: {i['why']}")
            return EXIT_INCONCLUSIVE
        print(f"OK property={self.prop} tier={self.tier} obligations={n_obl} discharged={n_dis} "
              f"queries={len(self.obligations)} solver_s={self.solver_s:.2f} wall_s={wall:.1f}")
        return EXIT_OK


def _by(obls):
    d = {}
    for o in obls:
        k = o["kind"].split(":")[0] + "/" + o["verdict"]
        d[k] = d.get(k, 0) + 1
    return d


def _slug(s):
    return "".join(c if c.isalnum() else "_" for c in s)[:60]
