"""numpy shim for code under E2: object-dtype ndarrays whose elements are proxies / numbers.

Only the *allocation* functions are replaced (np.empty / zeros / asarray / ...), so that the
arrays the code creates can hold symbolic elements; every other numpy function is numpy's own,
operating on object arrays through the Python operators of the proxies (which build z3 terms and
fork on comparisons).  np.empty fills with Poison: using a never-written slot is reported."""
from __future__ import annotations

import numpy as np
import z3

from e2_pysym import core as E


class PoisonRead(E.PathAbort):
    pass


class Poison:
    """Content of a slot allocated by np.empty and never written."""
    __slots__ = ("where",)

    def __init__(self, where=""):
        self.where = where

    def _bad(self, *a, **k):
        raise E.CheckFailed("never-written-slot-used", None, self.where)

    __add__ = __radd__ = __sub__ = __rsub__ = __mul__ = __rmul__ = __truediv__ = __rtruediv__ = _bad
    __lt__ = __le__ = __gt__ = __ge__ = __bool__ = __float__ = __int__ = __index__ = __neg__ = __abs__ = _bad

    def __repr__(self):
        return "<POISON>"

    def __deepcopy__(self, memo):
        return self


def is_poison(x):
    return isinstance(x, Poison)


_RAW_DTYPE = np.ndarray.dtype  # the C-level getset descriptor (SymArr subclasses may report a logical dtype)


def raw_dtype(x):
    return _RAW_DTYPE.__get__(x)


def _trunc(v):
    """numpy's float -> integer storage conversion (truncation toward zero), symbolic or concrete."""
    if isinstance(v, E.SymBool):
        return v * 1
    if isinstance(v, E.SymReal):
        e = v.e
        if not isinstance(e, z3.ExprRef):
            return int(e)
        return E.wrap(z3.If(e >= 0, z3.ToInt(e), -z3.ToInt(-e)))
    if isinstance(v, (E.SymInt, Poison)) or v is None:
        return v
    if isinstance(v, (bool, np.bool_)):
        return int(v)
    try:
        return int(v)
    except Exception:
        return v


def _cast(v, ldtype):
    """What numpy does to a value written into storage of the given (logical) dtype."""
    if ldtype is None or ldtype.kind not in "iu":
        return v
    if isinstance(v, np.ndarray) or isinstance(v, (list, tuple)):
        a = np.asarray(v, dtype=object)
        out = np.empty(a.shape, dtype=object)
        for ix in np.ndindex(*a.shape):
            out[ix] = _trunc(a[ix])
        return out if a.shape else out[()]
    return _trunc(v)


class SymArr(np.ndarray):
    """object ndarray; index arrays holding symbolic ints are concretised element-wise (forking).  `ldtype` is the
    dtype the real code asked for at allocation: writes into integer storage truncate like numpy's."""

    ldtype = None

    def __new__(cls, arr):
        return np.asarray(arr, dtype=object).view(cls)

    def __array_finalize__(self, obj):
        self.ldtype = getattr(obj, "ldtype", None)

    @staticmethod
    def _fix_index(idx):
        if isinstance(idx, tuple):
            return tuple(SymArr._fix_index(i) for i in idx)
        if isinstance(idx, (E.SymInt, E.SymBool)):
            return int(idx)
        if isinstance(idx, np.ndarray) and raw_dtype(idx) == object:
            flat = [int(i) for i in idx.reshape(-1)]
            return np.asarray(flat, dtype=np.int64).reshape(idx.shape)
        if isinstance(idx, list) and any(isinstance(i, (E.SymInt,)) for i in idx):
            return [int(i) for i in idx]
        return idx

    def __getitem__(self, idx):
        r = super().__getitem__(self._fix_index(idx))
        return r

    def __setitem__(self, idx, v):
        super().__setitem__(self._fix_index(idx), _cast(v, self.ldtype))


class TypedSymArr(SymArr):
    """SymArr that reports its logical dtype through `.dtype` (used only where the code under analysis derives an
    allocation dtype from an existing array: the 0-length placeholders and, with NpShim(typed=True), np.asarray)."""

    @property
    def dtype(self):
        return self.ldtype if self.ldtype is not None else raw_dtype(self)


def _infer_ldtype(x):
    flat = list(np.asarray(x, dtype=object).reshape(-1))
    if any(isinstance(v, (E.SymReal, float, np.floating)) or (hasattr(v, "denominator") and not isinstance(v, (int, np.integer, E.SymInt))) for v in flat):
        return np.dtype(float)
    if flat and all(isinstance(v, (E.SymBool, bool, np.bool_)) for v in flat):
        return np.dtype(bool)
    if flat and all(isinstance(v, (E.SymInt, E.SymBool, int, np.integer, bool, np.bool_)) for v in flat):
        return np.dtype(np.int64)
    return None


def _has_sym(x):
    if isinstance(x, (E.SymInt, E.SymReal, E.SymBool, Poison)):
        return True
    if isinstance(x, np.ndarray):
        return raw_dtype(x) == object
    if isinstance(x, (list, tuple)):
        return any(_has_sym(i) for i in x)
    return False


class NpShim:
    """Stands in for the `np` name inside the module under analysis."""

    def __init__(self, always_object=True, typed=False):
        self._obj = always_object
        self._typed = typed

    def __getattr__(self, k):
        return getattr(np, k)

    def empty(self, shape, dtype=float, **kw):
        shape = (shape,) if isinstance(shape, (int, np.integer)) else tuple(int(s) for s in shape)
        a = np.empty(shape, dtype=object)
        for idx in np.ndindex(*shape):
            a[idx] = Poison(f"np.empty{shape}[{idx}]")
        out = TypedSymArr(a) if a.size == 0 else SymArr(a)
        try:
            out.ldtype = None if np.dtype(dtype) == object else np.dtype(dtype)
        except TypeError:
            out.ldtype = None
        return out

    def zeros(self, shape, dtype=float, **kw):
        return np.zeros(shape, dtype=dtype)

    def _like(self, x, fill, dtype=None):
        a = np.asarray(x, dtype=object)
        out = SymArr(np.full(a.shape, fill, dtype=object))
        try:
            out.ldtype = np.dtype(dtype) if dtype is not None else (getattr(x, "ldtype", None) or _infer_ldtype(x))
        except TypeError:
            out.ldtype = None
        return out

    def zeros_like(self, x, dtype=None, **kw):
        # numpy semantics: the result has the dtype of its argument (integer rewards -> integer storage)
        if _has_sym(x) or isinstance(x, SymArr):
            return self._like(x, 0, dtype)
        return np.zeros_like(x, dtype=dtype, **kw)

    def ones_like(self, x, dtype=None, **kw):
        if _has_sym(x) or isinstance(x, SymArr):
            return self._like(x, 1, dtype)
        return np.ones_like(x, dtype=dtype, **kw)

    def empty_like(self, x, dtype=None, **kw):
        if _has_sym(x) or isinstance(x, SymArr):
            return self._like(x, 0, dtype)
        return np.empty_like(x, dtype=dtype, **kw)

    def asarray(self, x, dtype=None, **kw):
        if isinstance(x, SymArr):
            return x
        if _has_sym(x):
            if self._typed and dtype is None:
                out = TypedSymArr(np.asarray(x, dtype=object))
                out.ldtype = _infer_ldtype(x)
                return out
            return SymArr(np.asarray(x, dtype=object))
        return np.asarray(x, dtype=dtype, **kw) if dtype is not None else np.asarray(x, **kw)

    array = asarray

    def abs(self, x):
        if isinstance(x, np.ndarray) and raw_dtype(x) == object:
            return SymArr(np.frompyfunc(abs, 1, 1)(x))
        return np.abs(x)

    def mean(self, x, *a, **k):
        if _has_sym(x):
            x = np.asarray(x, dtype=object)
            if a or k:
                raise E.V.Unsupported("np.mean with axis on symbolic array")
            tot = 0
            for v in x.reshape(-1):
                tot = tot + v
            return tot / x.size
        return np.mean(x, *a, **k)




class JnpShim:
    """`jnp` inside the module under analysis: conversion to device arrays is the identity."""

    def __getattr__(self, k):
        import jax.numpy as jnp
        return getattr(jnp, k)

    def asarray(self, x, *a, **k):
        return x

    array = asarray


class RngStub:
    """np.random.Generator whose draws are arbitrary values in the documented range."""

    def __init__(self, tag="rng"):
        self.tag = tag
        self.n = 0
        self.draws = []

    def integers(self, low, high=None, size=None, **kw):
        """Arbitrary ints in [low, high): drawn symbolically, then enumerated by forking, so the code
        under analysis receives an ordinary integer array on each path."""
        if high is None:
            low, high = 0, low
        low, high = int(low), int(high)
        if low >= high:
            raise ValueError("low >= high")
        n = 1 if size is None else int(np.prod(size))
        out = []
        for _ in range(n):
            v = E.sym_int(f"{self.tag}_int{self.n}")
            self.n += 1
            E.cur().assume(v >= low)
            E.cur().assume(v < high)
            out.append(int(v))
        self.draws.append(("integers", low, high, list(out)))
        if size is None:
            return out[0]
        return np.asarray(out, dtype=np.int64).reshape(size)

    def uniform(self, low=0.0, high=1.0, size=None):
        shape = () if size is None else ((size,) if isinstance(size, (int, np.integer)) else tuple(size))
        n = int(np.prod(shape)) if shape else 1
        lows = np.broadcast_to(np.asarray(low, dtype=object), shape).reshape(-1) if shape else [low]
        highs = np.broadcast_to(np.asarray(high, dtype=object), shape).reshape(-1) if shape else [high]
        out = []
        for k in range(n):
            u = E.sym_real(f"{self.tag}_u{self.n}")
            self.n += 1
            # open interval: the property quantifies over variates in (0,1)
            E.cur().assume(u > 0)
            E.cur().assume(u < 1)
            out.append(lows[k] + (highs[k] - lows[k]) * u)
        self.draws.append(("uniform", out))
        if not shape:
            return out[0]
        return SymArr(np.asarray(out, dtype=object).reshape(shape))

    def choice(self, a, size=None, **kw):
        a = list(a)
        i = E.sym_int(f"{self.tag}_choice{self.n}", 0, len(a) - 1)
        self.n += 1
        v = a[int(i)]
        return np.asarray([v]) if size is not None else v
