"""E2: symbolic execution of real Python code objects with z3-backed proxies.

The code under analysis is the unmodified rl_blox function/class; its inputs are
SymBool/SymInt/SymReal proxies.  Every `if`/`while`/`bool()` on a symbolic condition
asks the solver which outcomes are feasible under the current path condition and
forks (depth-first, by re-execution with a decision prefix - the CrossHair/KLEE scheme).
`__index__`/`int()` on a symbolic integer forks over its feasible values.
"""
from __future__ import annotations

import itertools
import time
from fractions import Fraction

import z3

from symcore import values as V


class PathAbort(BaseException):
    """Ends the current path (not an error).  BaseException so that `except Exception` in the
    code under analysis cannot swallow it."""


class Infeasible(PathAbort):
    pass


class CheckFailed(PathAbort):
    def __init__(self, label, model, detail=None):
        self.label, self.model, self.detail = label, model, detail


class Budget(PathAbort):
    pass


class PathCtx:
    def __init__(self, prefix, timeout_ms=30000):
        self.prefix = list(prefix)
        self.decisions = []
        self.pending = []  # alternative prefixes discovered on this path
        self.pc = []
        self.solver = z3.Solver()
        self.solver.set("timeout", timeout_ms)
        self.n_queries = 0
        self.solver_s = 0.0
        self.fresh = itertools.count()
        self.log = []  # free-form event log for the harness
        self.unknown = 0
        self.check_labels = {}

    # -- solver helpers
    def _check(self, *extra):
        t0 = time.time()
        self.n_queries += 1
        r = self.solver.check(*extra)
        self.solver_s += time.time() - t0
        if r == z3.unknown:
            self.unknown += 1
        return r

    def assume(self, cond):
        """Add a constraint to the path condition (harness precondition)."""
        c = as_z3_bool(cond)
        if isinstance(c, bool):
            if not c:
                raise Infeasible()
            return
        self.solver.add(c)
        self.pc.append(c)

    def decide(self, cond):
        """Truth value of a symbolic condition on this path (forks)."""
        c = as_z3_bool(cond)
        if isinstance(c, bool):
            return c
        c = z3.simplify(c)
        if z3.is_true(c):
            return True
        if z3.is_false(c):
            return False
        k = len(self.decisions)
        if k < len(self.prefix):
            d = self.prefix[k]
        else:
            can_t = self._check(c) != z3.unsat
            can_f = self._check(z3.Not(c)) != z3.unsat
            if can_t and can_f:
                d = True
                self.pending.append(self.decisions + [False])
            elif can_t:
                d = True
            elif can_f:
                d = False
            else:
                raise Infeasible()
        self.decisions.append(d)
        lit = c if d else z3.Not(c)
        self.solver.add(lit)
        self.pc.append(lit)
        return d

    def concretize(self, expr):
        """A concrete value of an integer/real term on this path (forks over feasible values)."""
        if not isinstance(expr, z3.ExprRef):
            return expr
        e = z3.simplify(expr)
        if z3.is_int_value(e):
            return e.as_long()
        if z3.is_rational_value(e):
            return Fraction(e.numerator_as_long(), e.denominator_as_long())
        for _ in range(10000):
            if self._check() != z3.sat:
                raise Infeasible()
            v = self.solver.model().eval(e, model_completion=True)
            if e.is_int():
                # canonical choice (smallest feasible value): replay with a prefix is deterministic
                for _ in range(100000):
                    if self._check(e < v) != z3.sat:
                        break
                    v = self.solver.model().eval(e, model_completion=True)
            if self.decide(e == v):
                return v.as_long() if z3.is_int_value(v) else Fraction(v.numerator_as_long(), v.denominator_as_long())
        raise Budget()

    def peek(self, expr):
        """Some feasible value of expr on this path WITHOUT constraining the path (formatting only)."""
        if not isinstance(expr, z3.ExprRef):
            return expr
        if self._check() != z3.sat:
            raise Infeasible()
        from symcore.solver import model_value
        return model_value(self.solver.model(), expr)

    def check(self, cond, label, detail=None):
        """Assertion of the harness: must hold for every value on this path."""
        self.check_labels[label] = self.check_labels.get(label, 0) + 1
        c = as_z3_bool(cond)
        if isinstance(c, bool):
            if not c:
                r = self._check()
                raise CheckFailed(label, self.solver.model() if r == z3.sat else None, detail)
            return True
        from symcore.solver import ground_axioms
        ax = ground_axioms(self.pc + [c])
        r = self._check(z3.Not(c), *ax)
        if r == z3.unsat:
            return True
        if r == z3.sat:
            raise CheckFailed(label, self.solver.model(), detail)
        raise CheckFailed(label + " (solver unknown)", None, detail)

    def fresh_name(self, base):
        return f"{base}!{next(self.fresh)}"


_CUR: list[PathCtx] = []


def cur() -> PathCtx:
    if not _CUR:
        raise RuntimeError("symbolic value used outside an exploration")
    return _CUR[-1]


class Result:
    def __init__(self):
        self.paths = 0
        self.completed = 0
        self.infeasible = 0
        self.decisions = 0
        self.queries = 0
        self.solver_s = 0.0
        self.failures = []  # (label, model, detail, prefix, log)
        self.budget_hit = False
        self.unknown = 0
        self.samples = []
        self.check_labels = {}


def explore(run, max_paths=20000, timeout_ms=30000, stop_at_first_failure_per_label=True, time_budget_s=None):
    """run(ctx) executes the code under analysis once on the path selected by ctx.prefix."""
    res = Result()
    work = [[]]
    seen_labels = set()
    t0 = time.time()
    while work:
        if res.paths >= max_paths or (time_budget_s and time.time() - t0 > time_budget_s):
            res.budget_hit = True
            break
        prefix = work.pop()
        ctx = PathCtx(prefix, timeout_ms)
        _CUR.append(ctx)
        try:
            run(ctx)
            res.completed += 1
            if len(res.samples) < 5:
                res.samples.append({"decisions": list(ctx.decisions), "log": [str(x) for x in ctx.log[:12]]})
        except Infeasible:
            res.infeasible += 1
        except CheckFailed as f:
            if not (stop_at_first_failure_per_label and f.label in seen_labels):
                seen_labels.add(f.label)
                res.failures.append((f.label, f.model, f.detail, list(ctx.decisions), list(ctx.log)))
        except Budget:
            res.budget_hit = True
        finally:
            _CUR.pop()
        res.paths += 1
        res.decisions += len(ctx.decisions)
        res.queries += ctx.n_queries
        res.solver_s += ctx.solver_s
        res.unknown += ctx.unknown
        for k, v in ctx.check_labels.items():
            res.check_labels[k] = res.check_labels.get(k, 0) + v
        work.extend(ctx.pending)
    return res


# ------------------------------------------------------------------------------------------ proxies
def as_z3_bool(c):
    if isinstance(c, SymBool):
        return c.e
    if isinstance(c, bool):
        return c
    if isinstance(c, z3.BoolRef):
        return c
    if isinstance(c, (SymInt, SymReal)):
        return c.e != 0
    if isinstance(c, (int, float, Fraction)):
        return c != 0
    if hasattr(c, "dtype") and getattr(c, "shape", None) == ():
        return bool(c)
    raise TypeError(f"cannot use {type(c)} as a condition")


def unwrap(x):
    """proxy / python number -> domain element (z3 term or concrete)."""
    if isinstance(x, (SymBool, SymInt, SymReal)):
        return x.e
    if isinstance(x, (bool, int, Fraction)):
        return x
    if isinstance(x, float):
        return V.norm_conc(x)
    if hasattr(x, "item") and getattr(x, "shape", None) == ():
        return unwrap(x.item())
    if isinstance(x, z3.ExprRef):
        return x
    raise TypeError(f"unwrap({type(x)})")


def wrap(e):
    """domain element -> proxy (symbolic) or python number (concrete)."""
    if isinstance(e, z3.BoolRef):
        s = z3.simplify(e)
        if z3.is_true(s):
            return True
        if z3.is_false(s):
            return False
        return SymBool(e)
    if isinstance(e, z3.ArithRef):
        return SymInt(e) if e.is_int() else SymReal(e)
    return e


def _bin(op):
    def f(self, other):
        try:
            o = unwrap(other)
        except TypeError:
            return NotImplemented
        return wrap(op(self.e, o))
    return f


def _rbin(op):
    def f(self, other):
        try:
            o = unwrap(other)
        except TypeError:
            return NotImplemented
        return wrap(op(o, self.e))
    return f


def _cmp(op):
    def f(self, other):
        try:
            o = unwrap(other)
        except TypeError:
            return NotImplemented
        return wrap(V.s_cmp(op, self.e, o))
    return f


class _Num:

    __slots__ = ("e",)

    def __init__(self, e):
        self.e = e

    __add__ = _bin(V.s_add)
    __radd__ = _rbin(V.s_add)
    __sub__ = _bin(V.s_sub)
    __rsub__ = _rbin(V.s_sub)
    __mul__ = _bin(V.s_mul)
    __rmul__ = _rbin(V.s_mul)
    __truediv__ = _bin(V.s_div)
    __rtruediv__ = _rbin(V.s_div)
    __lt__ = _cmp("lt")
    __le__ = _cmp("le")
    __gt__ = _cmp("gt")
    __ge__ = _cmp("ge")
    __eq__ = _cmp("eq")
    __ne__ = _cmp("ne")

    def __neg__(self):
        return wrap(V.s_neg(self.e))

    def __pos__(self):
        return self

    def __abs__(self):
        return wrap(V.s_abs(self.e))

    def __pow__(self, n):
        try:
            n = unwrap(n)
        except TypeError:  # e.g. an ndarray exponent: let numpy broadcast element-wise
            return NotImplemented
        if V.is_conc(n) and Fraction(n).denominator == 1:
            return wrap(V.s_ipow(self.e, int(n)))
        return wrap(V.s_pow(self.e, n))

    def __rpow__(self, b):
        return wrap(V.s_pow(unwrap(b), self.e))

    def __bool__(self):
        return cur().decide(self.e != 0)

    def __hash__(self):
        return hash(cur().concretize(self.e))

    def __repr__(self):
        return f"<{type(self).__name__} {self.e}>"

    def __deepcopy__(self, memo):
        return self  # immutable

    def __copy__(self):
        return self

    def __float__(self):
        # float() forces a concrete value: fork over feasible values (bounded domains only)
        return float(cur().concretize(self.e))

    def __round__(self, n=None):
        return self

    def __format__(self, spec):
        # formatting never influences control flow in the code under analysis: use a witness value
        w = cur().peek(self.e)
        if spec.endswith("d"):
            return format(int(w), spec)
        return format(float(w), spec) if spec else str(w)


def _floordiv(a, b):
    if V._is_int_like(a) and V._is_int_like(b):
        a, b = V.to_int(a), V.to_int(b)
        if V.is_conc(a) and V.is_conc(b):
            return a // b
        # python floor division == z3 div for positive divisor
        return V.to_z3(a) / V.to_z3(b)
    return V.s_floor(V.s_div(a, b))


def _mod(a, b):
    if V._is_int_like(a) and V._is_int_like(b):
        a, b = V.to_int(a), V.to_int(b)
        if V.is_conc(a) and V.is_conc(b):
            return a % b
        return V.to_z3(a) % V.to_z3(b)
    return V.s_sub(a, V.s_mul(V.s_floor(V.s_div(a, b)), b))


class SymInt(_Num):
    """Python-int-like.  floor division / modulo follow Python for POSITIVE divisors (the only
    ones rl_blox uses: capacities, intervals); a non-positive symbolic divisor is rejected."""
    __slots__ = ()

    def _pos_div(self, o):
        if isinstance(o, z3.ExprRef):
            cur().check(o > 0, "divisor-positive (encoding precondition)")
        elif o <= 0:
            raise V.Unsupported("non-positive concrete divisor with symbolic dividend")

    def __floordiv__(self, other):
        o = unwrap(other)
        self._pos_div(o)
        return wrap(_floordiv(self.e, o))

    def __rfloordiv__(self, other):
        self._pos_div(self.e)
        return wrap(_floordiv(unwrap(other), self.e))

    def __mod__(self, other):
        o = unwrap(other)
        self._pos_div(o)
        return wrap(_mod(self.e, o))

    def __rmod__(self, other):
        self._pos_div(self.e)
        return wrap(_mod(unwrap(other), self.e))

    def __index__(self):
        return int(cur().concretize(self.e))

    __int__ = __index__

    def __hash__(self):
        return hash(int(cur().concretize(self.e)))


class SymReal(_Num):
    __slots__ = ()

    # numpy object-dtype ufuncs dispatch to methods of the same name
    def sqrt(self):
        return wrap(V.s_fn("sqrt", self.e))

    def log(self):
        return wrap(V.s_fn("log", self.e))

    def exp(self):
        return wrap(V.s_fn("exp", self.e))

    def __floordiv__(self, other):
        return wrap(_floordiv(self.e, unwrap(other)))

    def __mod__(self, other):
        return wrap(_mod(self.e, unwrap(other)))

    def __int__(self):
        return SymInt(V.to_int(self.e)).__index__()


class SymBool:

    __slots__ = ("e",)

    def __init__(self, e):
        self.e = e

    def __bool__(self):
        return cur().decide(self.e)

    def __and__(self, o):
        return wrap(V.s_and(self.e, _b(o)))

    __rand__ = __and__

    def __or__(self, o):
        return wrap(V.s_or(self.e, _b(o)))

    __ror__ = __or__

    def __invert__(self):
        return wrap(V.s_not(self.e))

    def __eq__(self, o):
        return wrap(V.s_cmp("eq", self.e, _b(o)))

    def __ne__(self, o):
        return wrap(V.s_cmp("ne", self.e, _b(o)))

    def __hash__(self):
        return hash(bool(self))

    # arithmetic use of a flag: (1 - terminated), int(flag) ...
    def _num(self):
        return SymInt(z3.If(self.e, z3.IntVal(1), z3.IntVal(0)))

    def __add__(self, o):
        return self._num() + o

    __radd__ = __add__

    def __sub__(self, o):
        return self._num() - o

    def __rsub__(self, o):
        return o - self._num()

    def __mul__(self, o):
        return self._num() * o

    __rmul__ = __mul__

    def __int__(self):
        return 1 if bool(self) else 0

    __index__ = __int__

    def __float__(self):
        return 1.0 if bool(self) else 0.0

    def __repr__(self):
        return f"<SymBool {self.e}>"

    def __deepcopy__(self, memo):
        return self

    def __copy__(self):
        return self


def _b(o):
    if isinstance(o, SymBool):
        return o.e
    if isinstance(o, (bool, z3.BoolRef)):
        return o
    if isinstance(o, (SymInt, SymReal)):
        return o.e != 0
    if isinstance(o, (int,)):
        return o != 0
    raise TypeError(type(o))


# ------------------------------------------------------------------------------------------ fresh symbols
def sym_int(name, lo=None, hi=None):
    if getattr(cur(), "is_replay", False):
        c = cur()
        return int(c.value(c.fresh_name(name), "int"))
    v = z3.Int(cur().fresh_name(name))
    if lo is not None:
        cur().assume(v >= lo)
    if hi is not None:
        cur().assume(v <= hi)
    return SymInt(v)


def sym_real(name, lo=None, hi=None, lo_open=False, hi_open=False):
    if getattr(cur(), "is_replay", False):
        c = cur()
        return float(c.value(c.fresh_name(name), "real"))
    v = z3.Real(cur().fresh_name(name))
    if lo is not None:
        cur().assume(v > lo if lo_open else v >= lo)
    if hi is not None:
        cur().assume(v < hi if hi_open else v <= hi)
    return SymReal(v)


def sym_bool(name):
    if getattr(cur(), "is_replay", False):
        c = cur()
        return bool(c.value(c.fresh_name(name), "bool"))
    return SymBool(z3.Bool(cur().fresh_name(name)))


def model_py(model, x):
    """Concrete python value of a proxy/term/number under a model."""
    from symcore.solver import model_value
    e = unwrap(x) if not isinstance(x, z3.ExprRef) else x
    if model is None:
        return None
    return model_value(model, e)


# ------------------------------------------------------------------------------------------ concrete replay
class ReplayFailed(BaseException):
    def __init__(self, label):
        self.label = label


class ReplayCtx:
    """Drop-in for PathCtx in which sym_* return the model's concrete values: the harness program
    then drives the real code with ordinary Python numbers, and check() evaluates concretely."""

    is_replay = True

    def __init__(self, model):
        self.model = model
        self.fresh = itertools.count()
        self.log = []
        self.values = {}

    def fresh_name(self, base):
        return f"{base}!{next(self.fresh)}"

    def assume(self, cond):
        if isinstance(cond, z3.ExprRef):
            from symcore.solver import model_value
            cond = model_value(self.model, cond)
        if not bool(cond):
            raise Infeasible()

    def check(self, cond, label, detail=None):
        if isinstance(cond, z3.ExprRef):
            from symcore.solver import model_value
            cond = model_value(self.model, cond)
        if not bool(cond):
            raise ReplayFailed(label)
        return True

    def decide(self, cond):
        return bool(cond)

    def concretize(self, e):
        return e

    def peek(self, e):
        return e

    def value(self, name, sort):
        from symcore.solver import model_value
        v = model_value(self.model, z3.Int(name) if sort == "int" else (z3.Real(name) if sort == "real" else z3.Bool(name)))
        self.values[name] = str(v)
        return v


def replay_concrete(program, model):
    """Returns (label of the check that fails concretely or None, values used)."""
    ctx = ReplayCtx(model)
    _CUR.append(ctx)
    try:
        program(ctx)
        return None, ctx.values, ctx.log
    except ReplayFailed as f:
        return f.label, ctx.values, ctx.log
    except Infeasible:
        return "<assumption violated in replay>", ctx.values, ctx.log
    finally:
        _CUR.pop()
